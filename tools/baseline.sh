#!/bin/bash
# run the pinned 62-test baseline of a cij tree (default /repo) and report whether all stable tests pass
DIR=${1:-/repo}
cd "$DIR" && PYTHONDONTWRITEBYTECODE=1 /venv/bin/python -m pytest -q -p no:cacheprovider --timeout=900 --continue-on-collection-errors --junitxml=/tmp/_baseline_$$.xml >/tmp/_baseline_$$.log 2>&1
/venv/bin/python - "$$" <<'PY'
import json, sys, xml.etree.ElementTree as ET
pid = sys.argv[1]
stable = set(json.load(open('/root/.vp/BASELINE.json'))['stable_pass'])
root = ET.parse(f'/tmp/_baseline_{pid}.xml').getroot()
ok = set()
for tc in root.iter('testcase'):
    name = tc.get('classname') + '::' + tc.get('name')
    if not any(ch.tag in ('failure', 'error', 'skipped') for ch in tc):
        ok.add(name)
missing = sorted(stable - ok)
print(f"baseline: {len(stable & ok)}/{len(stable)} stable tests pass; newly passing beyond baseline: {len(ok - stable)}")
for m in missing: print("  FAIL", m)
sys.exit(1 if missing else 0)
PY
rc=$?; rm -f /tmp/_baseline_$$.xml /tmp/_baseline_$$.log
# the suite writes output tables next to the shipped examples: restore the tree
git -C "$DIR" checkout -q -- examples 2>/dev/null; git -C "$DIR" clean -fdq examples 2>/dev/null
exit $rc
