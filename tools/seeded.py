#!/usr/bin/env python3
"""Run the checks against the independently written breaking changes kept under /verif/seeded/<id>/.

usage: seeded.py [--confirm] [--tier quick|thorough] [id-prefix ...]

For each seeded change: create a scratch worktree of /repo (outside /repo and /verif), apply
patch.diff there, and run the check(s) of the property it breaks with CIJSIM_REPO pointing at the
scratch copy.  With --confirm additionally: run demo.py on the clean and on the patched tree (must
pass / fail) and the 62-test baseline on the patched tree (must pass).  Results go to
/verif/seeded/RESULTS.json.  The scratch worktree is removed afterwards.
"""
import json
import os
import subprocess
import sys
import time

VERIF = os.path.dirname(os.path.dirname(os.path.abspath(__file__)))
SEEDED = os.path.join(VERIF, "seeded")
ENV = dict(os.environ, OPENBLAS_NUM_THREADS="1", OMP_NUM_THREADS="1", PYTHONDONTWRITEBYTECODE="1")


def sh(cmd, **kw):
    return subprocess.run(cmd, shell=True, stdout=subprocess.PIPE, stderr=subprocess.STDOUT, text=True, **kw)


def main():
    args = sys.argv[1:]
    confirm = "--confirm" in args
    tier = "quick"
    if "--tier" in args:
        tier = args[args.index("--tier") + 1]
    sel = [a for a in args if not a.startswith("--") and a not in ("quick", "thorough")]
    ids = sorted(d for d in os.listdir(SEEDED) if os.path.isdir(os.path.join(SEEDED, d)) and (not sel or any(d.startswith(s) for s in sel)))
    scratch = f"/tmp/cij-seeded-{os.getpid()}"
    results = {}
    out_path = os.environ.get("SEEDED_RESULTS") or os.path.join(SEEDED, "RESULTS.json")
    if os.path.exists(out_path):
        results = json.load(open(out_path))
    try:
        r = sh(f"git -C /repo worktree add --detach {scratch} HEAD")
        if r.returncode:
            print(r.stdout)
            return 2
        for sid in ids:
            d = os.path.join(SEEDED, sid)
            meta = json.load(open(os.path.join(d, "meta.json")))
            sh(f"git -C {scratch} checkout -q -- . && git -C {scratch} clean -fdq")
            res = results.get(sid, {})
            res.update({"property": meta["property"], "checks": res.get("checks", {})})
            if confirm:
                c = sh(f"cd {d} && PYTHONPATH={scratch} timeout 600 /venv/bin/python -W ignore demo.py", env=ENV)
                res["demo_clean_exit"] = c.returncode
            a = sh(f"git -C {scratch} apply --whitespace=nowarn {d}/patch.diff")
            if a.returncode:
                print(f"{sid}: patch does not apply: {a.stdout[:300]}")
                res["applies"] = False
                results[sid] = res
                continue
            res["applies"] = True
            if confirm:
                c = sh(f"cd {d} && PYTHONPATH={scratch} timeout 600 /venv/bin/python -W ignore demo.py", env=ENV)
                res["demo_patched_exit"] = c.returncode
                b = sh(f"{VERIF}/tools/baseline.sh {scratch}")
                res["baseline_ok"] = b.returncode == 0
                sh(f"git -C {scratch} clean -fdq examples")
            for prop in meta.get("checks", [meta["property"]]):
                t0 = time.time()
                env = dict(os.environ, CIJSIM_REPO=scratch, CIJSIM_EVIDENCE_DIR=scratch + "-out", CIJSIM_REPLAY_DIR=scratch + "-out")
                c = subprocess.run(f"{VERIF}/check {prop} {tier}", shell=True, stdout=subprocess.PIPE, stderr=subprocess.STDOUT, text=True, env=env, cwd=VERIF)
                detail = [ln.strip() for ln in c.stdout.split("\n") if ln.startswith("  seed=")][:1]
                caught = c.returncode == 1 and any(ln.startswith("VIOLATION") for ln in c.stdout.split("\n"))
                res["checks"][f"{prop}:{tier}"] = {"exit": c.returncode, "caught": caught, "detail": detail[0][:300] if detail else "", "wall_s": round(time.time() - t0)}
                print(f"{sid:28s} {prop} {tier} exit={c.returncode} {'CAUGHT' if caught else 'missed'} {time.time() - t0:.0f}s {detail[0][:150] if detail else ''}"
                      + (f"  [demo clean={res.get('demo_clean_exit')} patched={res.get('demo_patched_exit')} baseline={'ok' if res.get('baseline_ok') else 'BROKEN'}]" if confirm else ""), flush=True)
            results[sid] = res
            json.dump(results, open(out_path, "w"), indent=1, sort_keys=True)
    finally:
        sh(f"git -C /repo worktree remove --force {scratch}; rm -rf {scratch}-out; git -C /repo worktree prune")
    return 0


if __name__ == "__main__":
    sys.exit(main())
