#!/usr/bin/env python3
"""print the markdown table of DESIGN.md 10.6 from seeded/<id>/meta.json and seeded/RESULTS.json"""
import json
import os
import sys

VERIF = os.path.dirname(os.path.dirname(os.path.abspath(__file__)))
res = json.load(open(sys.argv[1] if len(sys.argv) > 1 else os.path.join(VERIF, "seeded", "RESULTS.json")))
print("| seeded change | property | needs, in order to manifest | quick | thorough | caught by (first report) |")
print("|---|---|---|---|---|---|")
for sid in sorted(os.listdir(os.path.join(VERIF, "seeded"))):
    d = os.path.join(VERIF, "seeded", sid)
    if not os.path.isdir(d):
        continue
    meta = json.load(open(os.path.join(d, "meta.json")))
    r = res.get(sid, {}).get("checks", {})
    def cell(tier):
        out = []
        for k, v in sorted(r.items()):
            if k.endswith(":" + tier):
                out.append(("caught" if v["caught"] else "**missed**") + (f" ({k.split(':')[0]})" if len([x for x in r if x.endswith(':' + tier)]) > 1 else ""))
        return ", ".join(out) or "–"
    first = next((v["detail"] for k, v in sorted(r.items()) if v.get("caught")), "")
    orc = ""
    if "oracle=" in first:
        orc = first.split("oracle=")[1].split()[0].rstrip(":")
        msg = first.split(": ", 1)[1] if ": " in first else ""
        orc += ": " + msg[:90].replace("|", "/")
    print(f"| `{sid}` | {meta['property']} | {meta.get('needs_to_manifest', '')[:150]} | {cell('quick')} | {cell('thorough')} | {orc} |")
