#!/usr/bin/env python3
"""Regenerates /verif/MANIFEST.json from the table below (kept in one place so it stays valid)."""
import json, os, sys
VERIF = os.path.dirname(os.path.dirname(os.path.abspath(__file__)))

NA = {
 "C01": "pure function of (spectrum, grids, strains); deciding it needs an independent physics oracle over inputs; no schedule, fault, history or environment occurs in it",
 "C02": "pure function of the same inputs plus a heat-capacity field; an output identity, nothing for a simulator to schedule or fault",
 "C03": "pure linear algebra over a 21-dimensional tensor space, decided by a basis argument, not by simulated runs",
 "C05": "end-to-end numeric identity against an independently computed reference; no history, environment or fault in the statement (that part is C14)",
 "C06": "pure numeric relation to interpolation accuracy plus one input-validation clause; function of the input alone",
 "C07": "closed-form functions of a stiffness field; nothing depends on schedule, time, I/O faults or history",
 "C08": "equality of linear subspaces, decided symbolically; not a property of executions",
 "C10": "finite pure index algebra; settling it is exhaustive enumeration (another technique); nothing can depend on a schedule or fault",
 "C11": "pure function of a frequency table and a method/order pair; the completes-and-finite part is covered under C12",
 "C13": "metamorphic relation between two presentations of one input with no environmental clause",
 "C16": "pure function of dictionaries plus schema facts; its hash-seed and leakage facets are observed under C14",
 "C18": "pure function files->stdout needing an independent EoS oracle; its one environment-dependent step (fill_cij) is exercised under C09/C14",
 "C20": "pure functions of arrays and of one file's text; no history, environment or fault enters",
}
PENDING = "claimed in DESIGN.md; its check is still under construction in this session, the entry moves to `checks` once the check runs clean"

CHECKS = {
 "C12": dict(engine="sessionsim", section="5 C12", technique="deterministic simulation: seeded sessions with injected I/O errors, cancellations and allocation failures (uniformly drawn or aimed at functions holding in-flight state), retries and abandoned operations, line-level interleaving of two calculations; invariant monitor (completes / finite / real / T->0 / results available) on every observation",
   text="Seeded exploration: swarm-randomised valid configurations (all 7 interpolators x admissible orders incl. orders at or above the number of volumes, 9 crystal systems, DT 0.5-500 K, first grid rows at 1e-12 K to 5 K, mixed shear keys) are executed by simulated clients inside one process, alone, next to another live calculator, interleaved with it line by line (baton-passing threads with seeded and aimed switch points), under working-directory perturbations and as the retry after injected faults (open/read errors, cancellation and MemoryError at a seeded or aimed cij line); a self-contained invariant monitor checks that the calculation completes and that every isothermal/adiabatic modulus, average and velocity is available, finite and real where the property demands it, and the T->0 clauses. Besides the random batch every run sweeps: one fault at every fault point (every open, every distinct source line) of a few seeded base scenarios, and one ping-pong switch at every source line of a few seeded two-client segments. Sampling, not proof; no reference implementation is involved.",
   note="Trusts: the world generator's notion of a valid configuration (hand-written guards listed in DESIGN.md 5/C12); numpy.isfinite / eigvalsh for the preconditions; qha's heat-capacity field as the precondition for adiabatic values. Open known findings: hermite and akima interpolators."),
 "C14": dict(engine="sessionsim", section="5 C14", technique="deterministic simulation: seeded operation- and line-level interleavings of 1-3 clients, hash seeds, cwd perturbations and directory changes inside the history, simulated file timestamps, fault injection with retry or abandonment; differential against solo fresh-fork reference runs and against fresh-calculator singleton references, byte for byte",
   text="Seeded exploration of histories x interleavings x hash seeds x working-directory states x injected faults: every observation of every client in the session (bytes of each file written, digest of each array read, stdout of each command, exception type and message) must equal, byte for byte, the observation at the same program position of that client's solo run in a fresh fork with hash seed 0, clean directories and no faults; every read / single-entry write of the program must also equal the same read / write performed first on a fresh calculator in a pristine fork (O-order); a second calculator built from the same settings must agree with the first; plus read-twice / write-twice / re-fill idempotence and the frame condition. Histories contain directory changes, entries appearing in the working directory mid-way, dropped calculators, a simulated file clock that stands still, advances or steps back. Besides the random batch every run sweeps: one fault at every fault point (every open, every distinct source line) of a few seeded base scenarios, and one ping-pong switch at every source line of a few seeded two-client segments. Sampling, not proof.",
   note="Trusts: single-threaded BLAS; fork gives an identical post-import process image to reference and session; a defect that is identical in reference and session is invisible (by construction of a differential oracle)."),
 "C15": dict(engine="sessionsim", section="5 C15", technique="deterministic simulation: write histories by several clients into shared and separate working directories (incl. directory changes between construction and writing, two writers interleaved line by line) with torn / late-failing writes, open errors, cancellations, retries; checked against a simulated-disk reference model",
   text="Seeded exploration: after every write operation and again at the end of the session, every file the simulated disk model says must exist is parsed with the simulator's own parser and compared with the documented name pattern (frozen transcription), the requested T/P grid labels, and the array obtained from the same calculator through the public attribute, converted with CODATA constants independent of pint (constant-ratio test 1e-12, unit test 1e-8); aliases and repeated writes (also by another calculator of the same settings) must be byte-identical; adiabatic and isothermal keywords must not produce identical files when the tensors differ; a write with documented keywords must complete when the calculator's own pressure field brackets the requested pressures; nothing else in the tree may change. Besides the random batch every run sweeps: one fault at every fault point (every open, every distinct source line) of a few seeded base scenarios, and one ping-pong switch at every source line of a few seeded two-client segments. Sampling, not proof.",
   note="Trusts: the frozen transcription of the documented keyword table (cijsim/golden/writer_rules.json); the in-memory side is the calculator's own public attribute (whether that value is physically right is C05, not claimed)."),

 "C04": dict(engine="tasksim", section="5 C04", technique="deterministic simulation of request histories (seeded subsets, orders, spellings; re-used and interleaved task lists; earlier requests cancelled at a seeded line) against the real task scheduler under a trace monitor; differential against singleton-request references",
   text="Seeded exploration: for seeded worlds (stub calculators with seven kinds of strain fields incl. nearly equal axial strains, and real Calculators with lattice-derived strains), the 21 singleton requests give reference values; then the full set in three orders and 30 (thorough 60) seeded request histories run on the real resolve/calculate/lookup code while a monitor stamps every evaluation, store and lookup with a sequence number and checks: graph acyclic, work list topological, every dependency of a shear task stored before it is evaluated, no task evaluated twice, every requested key (in every spelling) gets a grid-shaped value; afterwards every value must equal its singleton-request value within 1e-9 of the tensor's scale. Before a fifth of the histories an earlier request on the same calculator is cancelled at a seeded cij line and abandoned; one task-list object is re-used for a chain of requests with alternating strains; two lists are kept alive with their steps interleaved. Isotropy and axis-relabelling clauses ride along as differential checks. Sampling, not proof.",
   note="Trusts: the stub calculator exposes what the contribution classes read; tolerance 1e-9 x global scale (rounding differences observed <= 2e-16, smallest wrong-merge effect seen 1e-8). 85 % of worlds use the stub calculator, 15 % a real Calculator built from generated input files with a lattice block."),
 "C17": dict(engine="sessionsim", section="5 C17", technique="deterministic simulation (thin): write/overwrite/read histories by 1-3 clients in shared and separate directories under a simulated file clock, checked against the simulated-disk model; injected open/read/torn-write faults with retry or abandonment",
   text="Seeded exploration: whatever the real readers return (read_energy, read_elast_data, Calculator.qha_input / elast_data) must equal EXACTLY the doubles the simulator wrote into that path (10- and 17-significant-digit tokens, every key spelling, empty or odd title lines); write_energy followed -- any number of operations later, after overwrites by smaller or equally sized data sets within the same simulated second and writes by other clients -- by read_energy returns the latest data set to the written precision, and must not fail; the fill command's stdout parses as a static table equal to the symmetry-filled parse of its input with header lines, volumes and lattice block preserved, and is produced for every sufficient table. Besides the random batch every run sweeps: one fault at every fault point (every open, every distinct source line) of a few seeded base scenarios. Nothing nondeterministic is in the statement; the simulation contributes histories, timestamps and faulted retries only (see DESIGN.md 3).",
   note="Trusts: the simulator's own file writers as ground truth (every printed token round-trips to the double kept as truth); for the fill round trip, apply_symetry_on_elast_data (real code) is the reference, as the statement defines it. Torn INPUT files are not injected (the property is conditioned on well-formed input): seeded change c17-elast-reader-islice-short-table is out of reach by design."),
 "C19": dict(engine="sessionsim", section="5 C19", technique="deterministic simulation: read-your-writes through a shared working directory after arbitrary write histories (requests interleaved with the writes, directory changes, stale and torn files, permuted or failing directory listings, two commands interleaved line by line, abandoned requests); oracle = the table on the simulated disk, parsed independently, plus exact bicubic stub tables",
   text="Seeded exploration: during and after write histories by one or two clients (shared cwd collecting the results of runs on different grids, overwrites, torn writes and retries, clutter, permuted listing order, directory changes) extract must return exactly the row (column) of each variable's own table whose label is nearest to the request, labelled by the other coordinate, to the printed digits; extract-geotherm (default or user-named columns) must pass the geotherm's columns through and return the table entry at grid nodes (1e-6) and, for simulator-placed tables that are bicubic polynomials in (T,P), the polynomial everywhere inside the range (1e-6); both must succeed when every variable resolves to one intact table. The convergence clause for general tables off the nodes is not decided. Besides the random batch every run sweeps: one fault at every fault point (every open, every distinct source line) of a few seeded base scenarios, and one ping-pong switch at every source line of a few seeded two-client segments. Sampling, not proof.",
   note="Trusts: the simulator's own table parser; variables resolving to no, several or torn tables, requests mixing tables on different grids and exact ties are skipped (counted in the evidence). Open known finding: NaN anywhere in a table poisons extract-geotherm."),
 "C09": dict(engine="sessionsim", section="5 C09", technique="deterministic simulation: fill operations under working-directory states (shadow names, relation files) and process history (incl. re-use of one table object after a refused call), differential against a clean-cwd solo fresh-fork reference; presentation clauses and clear-cut refusal cases ride along",
   text="Seeded exploration of the environment clauses: fill_cij / `cij fill` / Calculator with a symmetry section are issued in working directories containing directories or files named like the requested system, constraints/<system>, other systems, and next to other clients' operations; the outcome (table bytes or exception) must equal the clean-cwd solo reference; an explicit path to a user-written relations file equivalent to the packaged ones must give the packaged result (1e-9), a non-existent path must fail; a call that raised must leave the caller's table untouched and a later call on the same object must equal a call on a fresh one. Ride-along differential clauses on the same runs: column order, letter case, integer-vs-float columns, supplied values unchanged, extra columns passed through; clear-cut refusals: a table lacking every member of one relation class must be refused (accepted with ignore_rank), one contradicting a relation by 5 GPa or more must be refused (accepted with ignore_residuals), a sufficient consistent table must be accepted. NOT decided: the exact boundary ('refuses exactly when ...', residual thresholds), which needs an independent rank/threshold oracle over inputs.",
   note="Trusts: hand-written sufficient-subset rule and relation files per system in cijsim/world.py (cross-checked for rank and consistency at build time); only sufficient, consistent tables are generated."),
}

def main():
    checks = []
    for pid, c in sorted(CHECKS.items()):
        checks.append({
            "property_id": pid,
            "quick_cmd": f"./check {pid} quick",
            "thorough_cmd": f"./check {pid} thorough",
            "evidence_file": f"/verif/evidence/{pid}.json",
            "replay_cmd_template": f"./check {pid} --replay {{path}}",
            "engine": c["engine"],
            "level_claimed": {"category": "exploration", "text": c["text"], "design_ref": c["section"]},
            "level_note": c["note"],
            "technique": c["technique"],
        })
    na = [{"property_id": k, "reason": v} for k, v in sorted(NA.items())]
    for pid in ["C04", "C09", "C12", "C14", "C15", "C17", "C19"]:
        if pid not in CHECKS:
            na.append({"property_id": pid, "reason": PENDING})
    na.sort(key=lambda x: x["property_id"])
    engines = [
        {"name": "sessionsim", "path": "/verif/cijsim", "serves_properties": [p for p in CHECKS if CHECKS[p]["engine"] == "sessionsim"],
         "kind_free_text": "deterministic simulation of client sessions against the real cij code: seeded scenario generator, interposed open/scandir/stat seams (simulated file timestamps), fault plan, baton-passing line stepper with seeded / aimed / ping-pong switch points, solo fresh-fork and singleton references, simulated-disk reference model, fault sweep and interleaving sweep over seeded base scenarios, delta-debugging minimiser, replay files"},
    ]
    if any(c["engine"] == "tasksim" for c in CHECKS.values()):
        engines.append({"name": "tasksim", "path": "/verif/cijsim/tasksim.py", "serves_properties": ["C04"],
                        "kind_free_text": "deterministic simulation of request histories against cij's task scheduler with a trace monitor, cancelled earlier requests, re-used and interleaved task lists, and solo-request references"})
    m = {
        "version": 1,
        "setup_cmd": "cd /verif && ./setup.sh",
        "hooks": {"guard": "CIJ_VERIF", "enable": "no source hooks exist: every seam (builtins.open, os.scandir, os.stat, sys.settrace, PYTHONHASHSEED) is installed from outside /repo; checks import /repo's working tree through PYTHONPATH=/repo",
                  "baseline_off_cmd": "cd /repo && /venv/bin/python -m pytest -ra -q -p no:cacheprovider --timeout=900 --continue-on-collection-errors",
                  "source_commits": [], "add_only": True},
        "engines": engines,
        "checks": checks,
        "not_applicable": na,
        "notes": "Technique: deterministic simulation with fault injection (DESIGN.md). /repo carries only `fix:` commits (known_findings.json lists them); no hook commits.",
    }
    with open(os.path.join(VERIF, "MANIFEST.json"), "w") as fp:
        json.dump(m, fp, indent=1)
    import jsonschema
    jsonschema.validate(m, json.load(open("/root/.vp/MANIFEST.schema.json")))
    print("MANIFEST ok:", [c["property_id"] for c in checks])

main()
