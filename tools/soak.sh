#!/bin/bash
# soak.sh <tier> <seed-from> <seed-to> [prop ...]   -- run the checks under other VERIF_SEED values; evidence/replays go to a scratch directory
# prints one line per run and every VIOLATION / HARNESS line; exit 1 if any run did not exit 0
cd "$(dirname "$0")/.."
TIER=$1; A=$2; B=$3; shift 3
PROPS=${@:-C04 C09 C12 C14 C15 C17 C19}
OUT=${SOAK_OUT:-/dev/shm/cij-soak-$$}
mkdir -p "$OUT"
bad=0
for s in $(seq $A $B); do
  for p in $PROPS; do
    t0=$(date +%s)
    VERIF_SEED=$s CIJSIM_EVIDENCE_DIR=$OUT CIJSIM_REPLAY_DIR=$OUT/replays ./check $p $TIER > $OUT/$p-$s.log 2>&1
    rc=$?
    echo "soak $p seed=$s tier=$TIER exit=$rc $(( $(date +%s) - t0 ))s  $(tail -1 $OUT/$p-$s.log | cut -c1-160)"
    if [ $rc -ne 0 ]; then bad=1; grep -E "^(VIOLATION|HARNESS|  seed=)" $OUT/$p-$s.log | head -12; fi
  done
done
[ -z "$SOAK_KEEP" ] && [ $bad -eq 0 ] && rm -rf "$OUT"
exit $bad
