#!/bin/bash
# import_seed.sh <worktree> <n> <id> <property> "<needs>"   -> /verif/seeded/<id>/{patch.diff,demo.py,README.md,meta.json}
set -e
W=$1; N=$2; ID=$3; PROP=$4; NEEDS=$5
D=/verif/seeded/$ID; mkdir -p $D
cp $W/_seed/$N/patch.diff $W/_seed/$N/demo.py $D/
[ -f $W/_seed/$N/README.md ] && cp $W/_seed/$N/README.md $D/README.md
python3 - "$D" "$PROP" "$NEEDS" <<'PY'
import json, sys
d, prop, needs = sys.argv[1:4]
json.dump({"property": prop, "checks": [prop], "needs_to_manifest": needs, "origin": "written by an independent sub-agent given only the property text and a scratch worktree",
           "ran": "tools/seeded.py --confirm: demo.py exits 0 on the clean tree and non-zero with the patch; 62-test baseline passes with the patch; then the property's quick check (and thorough if missed) against the patched scratch copy"},
          open(d + "/meta.json", "w"), indent=1)
PY
echo imported $ID
