#!/usr/bin/env python3
"""Sensitivity protocol: apply small breaking patches to a scratch worktree of /repo, confirm the
62-test baseline still passes there, and run the relevant quick check against the scratch copy
(CIJSIM_REPO).  Each mutant must be caught (exit 1) or, for the "must not alarm" ones, pass.

usage: mutants.py [name-prefix ...]   (env MUT_BASELINE=0 skips the baseline run)
"""
import json
import os
import subprocess
import sys
import time

VERIF = os.path.dirname(os.path.dirname(os.path.abspath(__file__)))

M = []


def mut(name, prop, path, old, new, expect="caught", note=""):
    M.append(dict(name=name, prop=prop, path=path, old=old, new=new, expect=expect, note=note))


# ---- C04 -------------------------------------------------------------------------------------
mut("c04_eq_ignores_strain", "C04", "cij/core/tasks.py",
    "            if not numpy.array_equal(self.params[0], other.params[0]): return False # strain comparison\n", "", expect="either",
    note="equivalent mutant: shear tasks only ever exist in the crystal frame (rotated fictitious strains are diagonal), so two shear tasks with one key always have the same strain")
mut("c04_allclose_loose", "C04", "cij/core/tasks.py",
    "            if not numpy.array_equal(self.params, other.params): return False\n",
    "            if not numpy.allclose(self.params, other.params, rtol=1e-2): return False\n")
mut("c04_revert_exact_eq", "C04", "cij/core/tasks.py",
    "            if not numpy.array_equal(self.params, other.params): return False\n",
    "            if not numpy.allclose(self.params, other.params): return False\n", note="revert of the D10 repair (non-shear branch)")
mut("c04_topo_reversed", "C04", "cij/core/tasks.py",
    "        self.data = [tasks[idx] for idx in orders]\n", "        self.data = [tasks[idx] for idx in reversed(list(orders))]\n")
mut("c04_dedup_by_key_only", "C04", "cij/core/tasks.py",
    "            task = next((t for t in tasks if t.task_params == task_params), None)\n",
    "            task = next((t for t in tasks if t.key == key), None)\n")
mut("c04_queue_fifo", "C04", "cij/core/tasks.py", "            strain, key, dep = q.pop()\n", "            strain, key, dep = q.pop(0)\n",
    expect="pass", note="different but still topological order: must NOT alarm")
mut("c04_lookup_first_of_type", "C04", "cij/core/tasks.py",
    "        return next(v for p, v in self.data.items() if p == params)\n",
    "        return next(v for p, v in self.data.items() if p.calc_type == params.calc_type and (p == params or len(self.data) > 40))\n")

# ---- C12 -------------------------------------------------------------------------------------
mut("c12_revert_expm1", "C12", "cij/core/phonon_contribution/nonshear.py",
    "        return self.Q ** 2 * numpy.exp(-self.Q) / numpy.expm1(-self.Q) ** 2\n",
    "        return self.Q ** 2 * numpy.exp(self.Q) / (numpy.exp(self.Q) - 1) ** 2\n", note="revert of the D6 repair")
mut("c12_revert_eigh", "C12", "cij/core/phonon_contribution/shear.py",
    "        return numpy.linalg.eigh(self.fictitious_strain)[1]\n", "        return numpy.linalg.eig(self.fictitious_strain)[1]\n", note="revert of the D2 repair (transformation matrix)")
mut("c12_t0_mask_removed", "C12", "cij/core/phonon_contribution/nonshear.py",
    "        ret[numpy.where(self.t_array == 0),:] = 0\n\n        return ret\n\n    @LazyProperty\n    def value_isothermal(self) -> numpy.ndarray:",
    "        return ret\n\n    @LazyProperty\n    def value_isothermal(self) -> numpy.ndarray:")
mut("c12_revert_sample_arrays", "C12", "cij/core/qha_adapter.py",
    "        return calculator\n\n    @property\n    def v_array(self):",
    "        p_sample_gpa = calculator.pressure_sample_array\n        return calculator\n\n    @property\n    def v_array(self):", note="revert of the D12 repair")
mut("c12_adiabatic_t0_mask_removed", "C12", "cij/core/phonon_contribution/nonshear.py",
    "        ret[numpy.where(self.t_array == 0), :] = 0\n        \n        return ret\n", "        return ret\n")

# ---- C09 / C14 (environment) ---------------------------------------------------------------------
mut("c09_revert_d3", "C09", "cij/util/fill.py",
    "    constraints = Path(get_data_fname(str(Path(\"constraints\") / system)))\n    if not constraints.is_file():\n        if not Path(system).is_file():\n            raise FileNotFoundError(f\"Neither a known crystal system nor a constraints file: {system}\")\n        constraints = Path(system)\n",
    "    if not Path(system).exists():\n        constraints = Path(\"constraints\") / system\n        constraints = get_data_fname(str(constraints))\n", note="revert of the D3 repair")
mut("c09_cwd_file_wins", "C09", "cij/util/fill.py",
    "    constraints = Path(get_data_fname(str(Path(\"constraints\") / system)))\n    if not constraints.is_file():\n",
    "    constraints = Path(get_data_fname(str(Path(\"constraints\") / system)))\n    if Path(system).is_file():\n        constraints = Path(system)\n    elif not constraints.is_file():\n")
mut("c09_path_ignored", "C09", "cij/util/fill.py",
    "            raise FileNotFoundError(f\"Neither a known crystal system nor a constraints file: {system}\")\n        constraints = Path(system)\n",
    "            raise FileNotFoundError(f\"Neither a known crystal system nor a constraints file: {system}\")\n        constraints = Path(get_data_fname(\"constraints/triclinic\"))\n")
mut("c09_case_sensitive_writeback", "C09", "cij/util/fill.py",
    "if key.lower() == index), index)", "if key == index), index)")
mut("c09_revert_d7", "C09", "cij/util/fill.py",
    "        elast[key] = col    # replaces the column: integer-typed input columns become float\n", "        elast.loc[:, key] = col\n", note="revert of the D7 repair")
mut("c14_revert_d3", "C14", "cij/util/fill.py",
    "    constraints = Path(get_data_fname(str(Path(\"constraints\") / system)))\n    if not constraints.is_file():\n        if not Path(system).is_file():\n            raise FileNotFoundError(f\"Neither a known crystal system nor a constraints file: {system}\")\n        constraints = Path(system)\n",
    "    if not Path(system).exists():\n        constraints = Path(\"constraints\") / system\n        constraints = get_data_fname(str(constraints))\n", note="revert of the D3 repair, seen from C14")

# ---- C14 (history / hash seed / interleaving) -------------------------------------------------------
mut("c14_memo_interpolate_modes", "C14", "cij/core/calculator.py",
    "        interp_freq, gamma_i, vdr_dv = interpolate_modes(\n            self.qha_input, self.qha_calculator.v_array,\n            method=self.config[\"elast\"][\"settings\"][\"mode_gamma\"][\"interpolator\"],\n            order=self.config[\"elast\"][\"settings\"][\"mode_gamma\"][\"order\"]\n        )\n",
    "        _k = (self.config[\"elast\"][\"settings\"][\"mode_gamma\"][\"interpolator\"], self.config[\"elast\"][\"settings\"][\"mode_gamma\"][\"order\"], self.qha_input.nv, self.qha_input.nq, self.qha_input.np, len(self.qha_calculator.v_array))\n        if _k not in _MEMO:\n            _MEMO[_k] = interpolate_modes(\n                self.qha_input, self.qha_calculator.v_array,\n                method=_k[0], order=_k[1])\n        interp_freq, gamma_i, vdr_dv = _MEMO[_k]\n")
mut("c14_results_singleton", "C14", "cij/core/tasks.py",
    "        self.modulus_isothermal_values = PhononContributionTaskResults()\n        self.modulus_adiabatic_values = PhononContributionTaskResults()\n",
    "        self.modulus_isothermal_values = _ISO\n        self.modulus_adiabatic_values = _AD\n")
mut("c14_inplace_unit_conversion", "C14", "cij/io/output/results_writer.py",
    "        variable = getattr(base, self.prop)\n\n        if \"fname\" in _config:\n            fname = config[\"fname\"]\n        else:\n            fname = self.fname_pattern.format(base=base._base_name)\n\n        logger.info(f\"Writing output <{fname}>.\")\n        base.write_table(fname, convert(variable))\n",
    "        variable = getattr(base, self.prop)\n\n        if \"fname\" in _config:\n            fname = config[\"fname\"]\n        else:\n            fname = self.fname_pattern.format(base=base._base_name)\n\n        logger.info(f\"Writing output <{fname}>.\")\n        variable *= convert(1.0)\n        base.write_table(fname, variable)\n",
    note="second write of a volume-base average/pressure differs (volume-base properties that are cached arrays)")
mut("c14_chdir_in_load", "C14", "cij/core/calculator.py",
    "        self.config = cij.io.read_config(config_fname)\n        self.config = cij.io.apply_default_config(self.config)\n        self.qha_input = cij.io.traditional.read_energy(work_dir / self.config[\"qha\"][\"input\"])\n        self.elast_data = cij.io.traditional.read_elast_data(work_dir / self.config[\"elast\"][\"input\"])\n",
    "        import os\n        _cwd = os.getcwd()\n        self.config = cij.io.read_config(config_fname)\n        self.config = cij.io.apply_default_config(self.config)\n        os.chdir(work_dir.resolve())\n        self.qha_input = cij.io.traditional.read_energy(self.config[\"qha\"][\"input\"])\n        self.elast_data = cij.io.traditional.read_elast_data(self.config[\"elast\"][\"input\"])\n        os.chdir(_cwd)\n",
    note="only line-level interleaving or a cancellation between the two chdir calls sees it")
mut("c14_set_iteration_in_fill", "C14", "cij/util/fill.py",
    "    for index, col in list(elast.items()):\n        if numpy.allclose(col.to_numpy(), 0, atol=drop_atol):\n            elast = elast.drop(index, axis=1)\n",
    "    for index, col in list(elast.items()):\n        if numpy.allclose(col.to_numpy(), 0, atol=drop_atol):\n            elast = elast.drop(index, axis=1)\n    elast = elast[list(set(elast.columns))]\n",
    note="column order of the filled table follows set iteration: only another hash seed sees it")
mut("c14_id_in_filename", "C14", "cij/io/output/results_writer.py",
    "            fname = self.fname_pattern.format(base=base._base_name)\n\n        logger.info(f\"Writing output <{fname}>.\")\n        base.write_table(fname, convert(variable))",
    "            fname = self.fname_pattern.format(base=base._base_name)\n            if id(base) % 7 == 0: fname = fname.replace('.txt', '_%d.txt' % (id(base) % 1000))\n\n        logger.info(f\"Writing output <{fname}>.\")\n        base.write_table(fname, convert(variable))")
mut("c14_warn_once_flag", "C14", "cij/core/calculator.py",
    "            logger.warning(f\"Symmetry constraints check not performed! Make sure to fill in all non-zero terms for correct VRH averages!\")\n        else:\n            apply_symetry_on_elast_data(self.elast_data, symmetry)\n",
    "            logger.warning(f\"Symmetry constraints check not performed! Make sure to fill in all non-zero terms for correct VRH averages!\")\n        else:\n            global _FILLED_ONCE\n            if _FILLED_ONCE and symmetry.get(\"system\") == \"cubic\":\n                symmetry = dict(symmetry, drop_atol=1e3)\n            _FILLED_ONCE = True\n            apply_symetry_on_elast_data(self.elast_data, symmetry)\n",
    note="a process-global flag changes a code path on second use")
mut("c14_default_config_cached_by_reference", "C14", "cij/io/config/config.py",
    "    with open(cij.data.get_data_fname(\"default/settings.yaml\")) as fp:\n        default_dict = yaml.load(fp, Loader=yaml.FullLoader)\n    return update_config(input_dict, default_dict)",
    "    global _DEFAULT\n    if _DEFAULT is None:\n        with open(cij.data.get_data_fname(\"default/settings.yaml\")) as fp:\n            _DEFAULT = yaml.load(fp, Loader=yaml.FullLoader)\n    return update_config(input_dict, _DEFAULT)",
    note="nested default lists handed out by reference: caught through env.mutate_config of another calculator")
mut("c14_hash_order_output", "C14", "cij/core/calculator.py",
    "        for key in self.modulus_keys:\n            for i, j in set(itertools.permutations(key.voigt, 2)):\n                elastic_moduli[:, :, i-1, j-1] = self.modulus_adiabatic[key]\n",
    "        for key in sorted(self.modulus_keys, key=lambda k: hash(str(k))):\n            for i, j in set(itertools.permutations(key.voigt, 2)):\n                elastic_moduli[:, :, i-1, j-1] += self.modulus_adiabatic[key] / (1 if i == j else 1)\n",
    expect="either", note="accumulation order depends on the string hash; visible only if rounding differs")

mut("c14_v2p_cache_by_id", "C14", "cij/core/calculator.py",
    "    def __getitem__(self, key: str) -> numpy.ndarray:\n        return self.v2p(self.modulus[key])\n",
    "    def __getitem__(self, key: str) -> numpy.ndarray:\n        k = (id(self.modulus), str(key))\n        if k not in _V2P_CACHE:\n            _V2P_CACHE[k] = self.v2p(self.modulus[key])\n        return _V2P_CACHE[k]\n",
    expect="either", note="module-level cache keyed by id(): stale values are served once a dropped calculator's id is re-used (calc.drop, then another client's calc.new); whether CPython re-uses the address is not behind a seam (DESIGN 10.2)")

# ---- C15 -------------------------------------------------------------------------------------
mut("c15_outdir_frozen_at_init", "C15", "cij/core/calculator.py",
    "        self._load(config_fname)\n        self._apply_elastic_constants_symmetry()\n",
    "        self._outdir = Path.cwd()\n        self._load(config_fname)\n        self._apply_elastic_constants_symmetry()\n",
    note="output tables go to the directory the calculator was constructed in, not the current one: only env.chdir between construction and writing sees it")
mut("c15_cij_s_writes_isothermal", "C15", "cij/data/output/writer_rules.yml",
    "  unit: \"GPa\"\n  prop: modulus_adiabatic\n", "  unit: \"GPa\"\n  prop: modulus_isothermal\n")
mut("c15_unit_kbar", "C15", "cij/data/output/writer_rules.yml",
    "  prop: bulk_modulus_voigt_reuss_hill\n", "  prop: bulk_modulus_voigt_reuss_hill\n", expect="skip")
mut("c15_G_unit_kbar", "C15", "cij/data/output/writer_rules.yml",
    "  fname_pattern: 'G_VRH_{base}_gpa.txt'\n  var_type: value\n  unit_internal: \"rydberg / bohr ^ 3\"\n  unit: \"GPa\"\n",
    "  fname_pattern: 'G_VRH_{base}_gpa.txt'\n  var_type: value\n  unit_internal: \"rydberg / bohr ^ 3\"\n  unit: \"kbar\"\n")
mut("c15_labels_atomic_units", "C15", "cij/core/calculator.py",
    "        p_array = _to_gpa(self.p_array)\n", "        p_array = self.p_array\n")
mut("c15_fname_override_ignored", "C15", "cij/io/output/results_writer.py",
    "        if \"fname\" in _config:\n            fname = config[\"fname\"]\n        else:\n            fname = self.fname_pattern.format(base=base._base_name)\n",
    "        fname = self.fname_pattern.format(base=base._base_name)\n")
mut("c15_alias_vs_maps_to_vp", "C15", "cij/data/output/writer_rules.yml",
    "  - v_p\n  - vp\n  - primary_velocities\n", "  - v_p\n  - vp\n  - vs\n  - primary_velocities\n", expect="either",
    note="later rule re-registers vs, so the registry still maps vs to v_s: harmless edit")
mut("c15_alias_vs_removed_order", "C15", "cij/data/output/writer_rules.yml",
    "  - v_s\n  - vs\n  - secondary_velocities\n  fname_pattern: v_s_{base}_km_s.txt\n  var_type: value\n  unit_internal: \"km/s\"\n  unit: \"km/s\"\n  prop: secondary_velocities\n",
    "  - v_s\n  - vs\n  - secondary_velocities\n  fname_pattern: v_s_{base}_km_s.txt\n  var_type: value\n  unit_internal: \"km/s\"\n  unit: \"km/s\"\n  prop: primary_velocities\n")
mut("c15_format_ij_standard_digits", "C15", "cij/io/output/results_writer.py",
    "        return \"%d%d\" % key.v\n", "        return \"%d%d%d%d\" % key.s\n")
mut("c15_unit_override_ignored", "C15", "cij/io/output/results_writer.py",
    "        convert = convert_unit(_config[\"unit_internal\"], _config[\"unit\"])\n\n        variable = getattr(base, self.prop)\n\n        for k, v in variable.items():",
    "        convert = convert_unit(self.unit_internal, self.unit)\n\n        variable = getattr(base, self.prop)\n\n        for k, v in variable.items():")
mut("c15_tv_labels_bohr", "C15", "cij/core/calculator.py",
    "        v_array = _to_ang3(self.v_array)\n", "        v_array = self.v_array\n")
mut("c15_tp_modulus_uses_isothermal", "C15", "cij/core/calculator.py",
    "        return CijPressureBaseModulusInterface(\n            self.calculator.modulus_adiabatic,\n            self.v2p\n        )\n",
    "        return CijPressureBaseModulusInterface(\n            self.calculator.modulus_isothermal,\n            self.v2p\n        )\n",
    expect="either", note="in-memory public attribute and file agree (both wrong): invisible to O-disk by construction (C05/C06 territory)")

# ---- C17 -------------------------------------------------------------------------------------
mut("c17_reader_drops_last_qpoint", "C17", "cij/io/traditional/qha_input.py",
    "        for _ in range(nq):\n            coord = tuple(map(float, next(lines).strip().split()))\n            yield QPointData(coord, list(_yield_mode_data()))\n",
    "        for _q in range(nq):\n            coord = tuple(map(float, next(lines).strip().split()))\n            _m = list(_yield_mode_data())\n            if _q < nq - 1 or nq == 1: yield QPointData(coord, _m)\n")
mut("c17_reader_mode_off_by_one", "C17", "cij/io/traditional/qha_input.py",
    "            yield QPointData(coord, list(_yield_mode_data()))\n", "            _m = list(_yield_mode_data()); yield QPointData(coord, _m[:-1] + _m[-2:-1] if len(_m) > 3 else _m)\n")
mut("c17_weight_column_index", "C17", "cij/io/traditional/qha_input.py",
    "            yield QPointWeight(tuple(map(float, words[0:3])), float(words[3]))\n", "            yield QPointWeight(tuple(map(float, words[0:3])), float(words[2]))\n")
mut("c17_writer_loses_digits", "C17", "cij/io/traditional/qha_input.py",
    "                lines.append(f\"{cm_1:12.6f}\")\n", "                lines.append(f\"{cm_1:12.4f}\")\n")
mut("c17_fill_reads_n_rows", "C17", "cij/cli/fill.py", "        for i in range(N + 1):\n", "        for i in range(N):\n")
mut("c17_fill_header_twice", "C17", "cij/cli/fill.py",
    "        sys.stdout.write(line)\n\n        # Read elasticity table\n", "        sys.stdout.write(line)\n        sys.stdout.write(line)\n\n        # Read elasticity table\n")
mut("c17_elast_key_case", "C17", "cij/io/traditional/elast_dat.py",
    "REGEX_MODULUS = r\"^\\D*(\\d+)$\"", "REGEX_MODULUS = r\"^[a-z_]*(\\d+)$\"", note="upper-case prefixes are no longer keyed")
mut("c17_elast_cellmass_from_vref", "C17", "cij/io/traditional/elast_dat.py",
    "        cellmass = float(fields[2])\n", "        cellmass = float(fields[0])\n")
mut("c17_writer_energy_sign", "C17", "cij/io/traditional/qha_input.py",
    "        lines.append(f\"P= {p:12.6f} V= {v:12.6f} E= {e:12.6f}\")\n", "        lines.append(f\"P= {p:12.6f} V= {abs(v):12.6f} E= {e:12.6f}\")\n")

# ---- C19 -------------------------------------------------------------------------------------
mut("c19_argmin_over_columns", "C19", "cij/cli/extract.py",
    "        y_index = numpy.argmin(numpy.abs(df.index.to_numpy() - y))\n", "        y_index = min(numpy.argmin(numpy.abs(df.columns.to_numpy() - y)), len(df.index) - 1)\n")
mut("c19_missing_transpose", "C19", "cij/cli/extract.py",
    "            y = pressure\n            df = df.T\n", "            y = pressure\n")
mut("c19_spline_pt_swapped", "C19", "cij/cli/geotherm.py",
    "        table[var] = fit_data(df)(table[p_col], table[t_col], grid=False)\n", "        table[var] = fit_data(df)(table[t_col], table[p_col], grid=False)\n")
mut("c19_glob_too_wide", "C19", "cij/cli/extract.py",
    "glob(f\"{var}_tp_*\")[0]", "sorted(glob(f\"*{var}_tp_*\"))[0]")
mut("c19_nearest_floor", "C19", "cij/cli/extract.py",
    "        y_index = numpy.argmin(numpy.abs(df.index.to_numpy() - y))\n", "        y_index = max(0, int(numpy.searchsorted(df.index.to_numpy(), y, side='right')) - 1)\n",
    note="picks the row below instead of the nearest: visible only between grid values")
mut("c19_geotherm_kx1", "C19", "cij/cli/geotherm.py",
    "    return RectBivariateSpline(x, y, z)\n", "    return RectBivariateSpline(x, y, z, kx=1, ky=1)\n", note="bilinear: exact at nodes, wrong off-node on bicubic stub tables")

EXTRA = {
    "c14_v2p_cache_by_id": ("cij/core/calculator.py", "logger = logging.getLogger(__name__)\n", "logger = logging.getLogger(__name__)\n_V2P_CACHE = {}\n"),
    "c15_outdir_frozen_at_init": [("cij/core/calculator.py", "        save_x_tv(value, self.t_array, v_array, self.t_array, fname)\n", "        save_x_tv(value, self.t_array, v_array, self.t_array, str(self.calculator._outdir / fname))\n"),
                                  ("cij/core/calculator.py", "        save_x_tp(value, self.t_array, p_array, p_array, fname)\n", "        save_x_tp(value, self.t_array, p_array, p_array, str(self.calculator._outdir / fname))\n")],
    "c14_memo_interpolate_modes": ("cij/core/calculator.py", "logger = logging.getLogger(__name__)\n", "logger = logging.getLogger(__name__)\n_MEMO = {}\n"),
    "c14_results_singleton": ("cij/core/tasks.py", "class PhononContributionTask:\n", "_ISO = PhononContributionTaskResults()\n_AD = PhononContributionTaskResults()\n\nclass PhononContributionTask:\n"),
    "c14_warn_once_flag": ("cij/core/calculator.py", "logger = logging.getLogger(__name__)\n", "logger = logging.getLogger(__name__)\n_FILLED_ONCE = False\n"),
    "c14_default_config_cached_by_reference": ("cij/io/config/config.py", "def read_config(", "_DEFAULT = None\n\ndef read_config("),
}


def sh(cmd, **kw):
    return subprocess.run(cmd, shell=True, stdout=subprocess.PIPE, stderr=subprocess.STDOUT, text=True, **kw)


def main():
    sel = sys.argv[1:]
    todo = [m for m in M if m["expect"] != "skip" and (not sel or any(m["name"].startswith(s) for s in sel))]
    scratch = f"/tmp/cij-mutant-{os.getpid()}"
    os.makedirs(os.path.join(VERIF, "mutants"), exist_ok=True)
    results = []
    try:
        r = sh(f"git -C /repo worktree add --detach {scratch} HEAD")
        if r.returncode != 0:
            print(r.stdout)
            return 2
        for m in todo:
            sh(f"git -C {scratch} checkout -q -- . && git -C {scratch} clean -fdq")
            p = os.path.join(scratch, m["path"])
            src = open(p).read()
            if m["old"] not in src:
                print(f"{m['name']}: PATCH DOES NOT APPLY")
                results.append(dict(m, result="patch-failed"))
                continue
            open(p, "w").write(src.replace(m["old"], m["new"], 1))
            if m["name"] in EXTRA:
                ex = EXTRA[m["name"]]
                for ep, eo, en in (ex if isinstance(ex, list) else [ex]):
                    q = os.path.join(scratch, ep)
                    s2 = open(q).read()
                    assert eo in s2, m["name"]
                    open(q, "w").write(s2.replace(eo, en, 1))
            diff = sh(f"git -C {scratch} diff").stdout
            open(os.path.join(VERIF, "mutants", m["name"] + ".patch"), "w").write(diff)
            base_ok = None
            if os.environ.get("MUT_BASELINE", "1") == "1":
                b = sh(f"{VERIF}/tools/baseline.sh {scratch}")
                base_ok = b.returncode == 0
            t0 = time.time()
            env = dict(os.environ, CIJSIM_REPO=scratch, CIJSIM_EVIDENCE_DIR=scratch + "-out", CIJSIM_REPLAY_DIR=scratch + "-out")
            c = subprocess.run(f"{VERIF}/check {m['prop']} quick", shell=True, stdout=subprocess.PIPE, stderr=subprocess.STDOUT, text=True, env=env, cwd=VERIF)
            viol = [ln for ln in c.stdout.split("\n") if ln.startswith("VIOLATION")]
            detail = [ln.strip() for ln in c.stdout.split("\n") if ln.startswith("  seed=")][:1]
            caught = c.returncode == 1 and bool(viol)
            verdict = {"caught": "OK" if caught else "MISSED", "pass": "OK" if c.returncode == 0 else "FALSE-ALARM", "either": "info"}[m["expect"]]
            if c.returncode == 2:
                verdict += "(harness-exit-2)"
            print(f"{m['name']:42s} {m['prop']} baseline={'ok' if base_ok else ('n/a' if base_ok is None else 'BROKEN')} exit={c.returncode} {verdict} {time.time() - t0:.0f}s {detail[0][:160] if detail else ''}", flush=True)
            results.append(dict(name=m["name"], prop=m["prop"], expect=m["expect"], baseline_ok=base_ok, exit=c.returncode, caught=caught, verdict=verdict,
                                detail=detail[0] if detail else "", note=m["note"]))
            # replays written against the scratch copy are not kept
    finally:
        sh(f"git -C /repo worktree remove --force {scratch}; rm -rf {scratch}-out")
        sh("git -C /repo worktree prune")
    out = os.path.join(VERIF, "mutants", "RESULTS.json")
    prev = {}
    if os.path.exists(out):
        prev = {r["name"]: r for r in json.load(open(out))}
    for r in results:
        prev[r["name"]] = r
    json.dump(sorted(prev.values(), key=lambda r: r["name"]), open(out, "w"), indent=1)
    bad = [r for r in results if r.get("verdict", "").startswith(("MISSED", "FALSE"))]
    print(f"{len(results)} mutants, {len(bad)} not as expected")
    return 1 if bad else 0


if __name__ == "__main__":
    sys.exit(main())
