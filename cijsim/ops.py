"""Operation alphabet, executor (Runner) and the in-run oracles.

A Runner executes either one client's program alone in a pristine sandbox
(mode "solo": the reference) or the whole session (mode "session": all
clients interleaved, clutter, listing permutation, faults, line-level
segments).  It returns plain data: per-client observation lists, verdicts of
the oracles that are evaluated while the run proceeds, statistics and the
event-log digest.
"""
import copy
import fnmatch
import hashlib
import io
import json
import math
import os
import sys
import threading
import traceback

import numpy

from . import seams as S
from . import tables as TB
from . import units as U
from . import world as W
from .ops_io import IOOpsMixin

HERE = os.path.dirname(os.path.abspath(__file__))
REPO_CIJ = os.path.realpath(os.environ.get("CIJSIM_REPO", "/repo")) + "/cij/"


def sha(b):
    return hashlib.sha256(b).hexdigest()


def arr_digest(a):
    a = numpy.asarray(a)
    c = numpy.ascontiguousarray(a)
    return [c.dtype.str, list(c.shape), sha(c.tobytes())]


def norm_msg(msg, root):
    msg = str(msg)
    msg = msg.replace(os.path.realpath(root), "<ROOT>").replace(root, "<ROOT>")
    return msg[:300]


# ---------------------------------------------------------------------------

class Verdict(dict):
    pass


class Handle:
    def __init__(self, calc, world, settings_rel):
        self.calc = calc
        self.world = world
        self.settings_rel = settings_rel
        self.eff_output = copy.deepcopy(W.effective_output(world))
        self.read_digests = {}
        self.write_bytes = {}
        self.write_cwds = set()
        self.kind_bytes = {}
        self.config_gen = 0            # incremented when the client mutates its own config
        self.output_files = None       # (config_gen, sorted file names) of the last complete write_output()


class Runner(IOOpsMixin):
    def __init__(self, scenario, mode, root, solo_client=None, oracles=()):
        self.sc = scenario
        self.mode = mode
        self.root = os.path.realpath(root)
        self.solo = solo_client
        self.oracles = set(oracles)
        self.session = mode == "session"
        perm = scenario.get("listing_perm_seed") if self.session else None
        shadow = [c["name"] for c in scenario.get("clutter", [])] if self.session else []
        if self.session:
            shadow += [e["name"] for p in scenario["programs"].values() for o in p if o["op"] == "env.clutter" for e in o["entries"]]
        self.seams = S.Seams(self.root, perm, shadow)
        self.obs = {}
        self.verdicts = []
        self.handles = {}
        self.stored = {}          # client -> name -> text (cli.fill outputs etc.)
        self.disk = {}            # relpath -> model entry
        self.stats = {
            "ops": 0, "ops_ok": 0, "ops_exc": 0, "attempts": 0, "retries": 0,
            "faults_planned": 0, "faults_fired": {}, "fault_sites": {},
            "line_events": 0, "switches": 0, "segments_run": 0,
            "probes": {}, "coverage": {},
        }
        self.stdout = S.ThreadStdout(sys.stdout)
        self.trace_state = threading.local()
        self.file_texts = {}
        self.cwd_rel = {c: w["cwd"] for c, w in scenario["worlds"].items()}
        self.profile = [] if scenario.get("_profile") else None       # fault sweep: per operation, how many opens (and of which kind) and cij line events
        self.client_reads = {c: {} for c in scenario["worlds"]}     # (base, name) -> (digest, handle): every calculator of a client is built
        self.client_writes = {c: {} for c in scenario["worlds"]}    # from the same settings file, so they must all agree

    # -- probes ---------------------------------------------------------------
    def probe(self, name, n=1):
        p = self.stats["probes"]
        p[name] = p.get(name, 0) + n

    def cover(self, table, cell):
        t = self.stats["coverage"].setdefault(table, {})
        t[cell] = t.get(cell, 0) + 1

    def verdict(self, oracle, prop, client, op, message, **kw):
        v = {"oracle": oracle, "property": prop, "client": client, "op": op, "message": message}
        v.update(kw)
        self.verdicts.append(v)

    # -- setup ----------------------------------------------------------------
    def clients(self):
        if self.session:
            return list(self.sc["programs"])
        return [self.solo]

    def setup(self):
        os.makedirs(self.root, exist_ok=True)
        for name in self.clients():
            w = self.sc["worlds"][name]
            files = W.materialize(w, self.root)
            self.file_texts.update(files)
            self.obs[name] = []
            self.handles[name] = {}
            self.stored[name] = {}
        for ef in self.sc.get("extra_files", []):
            if ef["client"] in self.clients():
                S.write_text(os.path.join(self.root, ef["path"]), ef["text"])
                if ef.get("model"):
                    self.disk[ef["path"]] = dict(ef["model"], state="ok", writer=ef["client"], stub=True)
        if self.session:
            for c in self.sc.get("clutter", []):
                p = os.path.join(self.root, c["dir"], c["name"])
                if os.path.lexists(p):
                    continue
                if c["kind"] == "dir":
                    os.makedirs(p, exist_ok=True)
                    for sub in c.get("children", []):
                        S.write_text(os.path.join(p, sub["name"]), sub.get("text", ""))
                else:
                    S.write_text(p, c.get("text", ""))
                self.probe("clutter_entries")

    # -- main loop --------------------------------------------------------------
    def run(self):
        self.setup()
        single = None
        if "O-order" in self.oracles and not self.session and self.sc["worlds"][self.solo].get("valid", True):
            from . import singletons
            pl = singletons.plan(self.sc, self.solo)
            if pl["reads"] or pl["writes"]:
                scratch = self.root + "-single"
                try:
                    single = (pl, singletons.compute(self, self.solo, pl, scratch))
                finally:
                    S.rmtree(scratch)
        real_stdout, real_stderr = sys.stdout, sys.stderr
        sys.stdout = self.stdout
        devnull = open(os.devnull, "w")
        sys.stderr = devnull
        import logging
        logging.getLogger("cij").handlers[:] = []
        self.seams.install()
        cwd0 = os.getcwd()
        try:
            self._loop()
        finally:
            try:
                os.chdir(cwd0)
            except OSError:
                pass
            self.seams.uninstall()
            sys.stdout, sys.stderr = real_stdout, real_stderr
            devnull.close()
        self._final_checks()
        if single is not None:
            from . import singletons
            singletons.compare(self, self.solo, single[0], single[1])
        st = self.stats
        st["seam"] = self.seams.stats
        for f in self.seams.fault_fired:
            st["faults_fired"][f[0]] = st["faults_fired"].get(f[0], 0) + 1
        extra = {"events": [list(e) for e in self.seams.events]} if os.environ.get("CIJSIM_EVENTS") else {}
        return {
            **extra,
            "mode": self.mode, "client": self.solo,
            "obs": self.obs, "verdicts": self.verdicts, "stats": st,
            "event_digest": self.seams.event_digest(), "n_events": len(self.seams.events),
            **({"profile": self.profile} if self.profile is not None else {}),
        }

    def _loop(self):
        progs = self.sc["programs"]
        ptr = {c: 0 for c in self.clients()}
        if self.session:
            schedule = list(self.sc["schedule"])
        else:
            schedule = [self.solo] * len(progs[self.solo])
        for item in schedule:
            if isinstance(item, dict):       # line-level segment: two ops run as baton-passing threads
                self._run_segment(item, ptr)
                continue
            c = item
            if ptr[c] >= len(progs[c]):
                continue
            i = ptr[c]
            ptr[c] += 1
            self._run_op(c, i, progs[c][i])
        # whatever the schedule did not cover (defensive: keeps replay of shrunk scenarios total)
        for c in self.clients():
            while ptr[c] < len(progs[c]):
                i = ptr[c]
                ptr[c] += 1
                self._run_op(c, i, progs[c][i])

    # -- line-level segment: two operations of different clients as baton-passing threads ----------
    def _run_segment(self, item, ptr):
        progs = self.sc["programs"]
        members = []
        for c in item["par"]:
            if c in ptr and ptr[c] < len(progs[c]):
                members.append((c, ptr[c], progs[c][ptr[c]]))
                ptr[c] += 1
        if len(members) < 2:
            for c, i, op in members:
                self._run_op(c, i, op)
            return
        self.stats["segments_run"] += 1
        baton = Baton(self, [m[0] for m in members], item.get("switches", []))
        baton.pp_limit = int(item.get("pp_limit", 6000))
        errors = []

        def body(c, i, op):
            tracer = LineTracer(self, baton=baton, me=c)
            baton.wait_turn(c)
            sys.settrace(tracer.global_trace)
            try:
                self._run_op(c, i, op, tracer=tracer, in_segment=True)
            except BaseException as e:  # harness failure inside a thread
                errors.append(f"{type(e).__name__}: {e}\n{traceback.format_exc()}")
            finally:
                sys.settrace(None)
                self.stats["line_events"] += tracer.steps
                baton.finish(c)

        threads = [threading.Thread(target=body, args=m, name=f"client-{m[0]}") for m in members]
        for t in threads:
            t.start()
        baton.start()
        for t in threads:
            t.join(120)
            if t.is_alive():
                raise RuntimeError("line-level segment did not finish (deadlock under baton passing?)")
        if errors:
            raise RuntimeError("segment thread failed: " + errors[0])
        self.stats["switches"] += baton.n_switches
        self.probe("segment_pair_" + "+".join(sorted(m[2]["op"] for m in members)))

    # -- one operation with retries ------------------------------------------------
    def _faults_for(self, client, i, attempt):
        if not self.session:
            return []
        return [f for f in self.sc.get("faults", []) if f["client"] == client and f["op"] == i and f["attempt"] == attempt]

    def _cwd_of(self, client):
        """the directory the client's script is in NOW (env.chdir moves it)"""
        return os.path.join(self.root, self.cwd_rel[client])

    def _home_of(self, client):
        """the directory the client's script started in: its own auxiliary files (geotherm, phonon data it writes) live there"""
        return os.path.join(self.root, self.sc["worlds"][client]["cwd"])

    def _run_op(self, client, i, op, tracer=None, in_segment=False):
        self.stats["ops"] += 1
        all_faults = [f for f in self.sc.get("faults", []) if f["client"] == client and f["op"] == i] if self.session else []
        attempt = 0
        while True:
            faults = self._faults_for(client, i, attempt)
            self.stats["faults_planned"] += len(faults)
            rec, injected = self._attempt(client, i, op, attempt, faults, tracer, in_segment)
            self.stats["attempts"] += 1
            if injected and any(f.get("abandon") for f in faults):
                # the client gives this (read-only) operation up and goes on with its program
                rec["abandoned"] = True
                self.probe("abandoned_after_" + injected)
                self.seams.log("abandoned", op["op"], injected)
                break
            if injected and attempt < len(all_faults):
                # the client's program is "do X; if it blew up, do X again": f planned faults allow f+1 attempts
                self.stats["retries"] += 1
                self.probe("retry_after_" + injected)
                self.seams.log("aborted", op["op"], injected)
                attempt += 1
                continue
            break
        rec["attempts"] = attempt + 1
        if rec["status"] == "ok":
            self.stats["ops_ok"] += 1
        else:
            self.stats["ops_exc"] += 1
        self.obs[client].append(rec)
        self.seams.log("obs", sha(json.dumps(rec, sort_keys=True, default=str).encode()))
        return rec

    def _attempt(self, client, i, op, attempt, faults, tracer=None, in_segment=False):
        kind = op["op"]
        # the driver changes directory like a user script would: only when IT wants to be somewhere else than where it
        # last went -- it does not look at the process cwd, so a chdir leaked by cij stays visible to later operations
        want = self._cwd_of(client)
        if getattr(self, "driver_cwd", None) != want:
            os.chdir(want)
            self.driver_cwd = want
        before = S.snapshot_tree(self.root) if ("O-frame" in self.oracles and not in_segment) else None
        if attempt == 0 and op.get("tick"):
            self.seams.advance(op["tick"])       # the simulated clock (file timestamps) moves only when the scenario says so
        self.seams.begin_op(client, i, attempt, faults)
        self.stdout.start()
        line_fault = next((f for f in faults if f["kind"] in ("cancel", "alloc-fail")), None)
        rec = {"op": i, "kind": kind, "status": "ok", "exc": None}
        injected = None
        fired_before = len(self.seams.fault_fired)
        self.seams.ctx.fired0 = fired_before
        uninstall_trace = False
        if tracer is None and line_fault is None and self.profile is not None:
            tracer = LineTracer(self)
            tracer.sites = {}
            sys.settrace(tracer.global_trace)
            uninstall_trace = True
        if tracer is None and line_fault is not None:
            tracer = LineTracer(self, fault=line_fault, who=(client, i, attempt))
            sys.settrace(tracer.global_trace)
            uninstall_trace = True
        elif tracer is not None:
            sys.settrace(tracer.global_trace)   # a fault raised from the trace function switches tracing off: re-arm per attempt
            if line_fault is not None:
                tracer.arm_fault(line_fault, (client, i, attempt))
        self.seams.ctx.tracer = tracer
        handler = getattr(self, "op_" + kind.replace(".", "_"))   # unknown operation = harness error, not an observation
        try:
            payload = handler(client, i, op)
            rec.update(payload or {})
        except S.SimCancelled:
            rec["status"] = "exc"
            rec["exc"] = ["SimCancelled", ""]
            injected = "cancel"
        except MemoryError as e:
            rec["status"] = "exc"
            rec["exc"] = ["MemoryError", norm_msg(e, self.root)]
            if "injected" in str(e):
                injected = "alloc-fail"
        except BaseException as e:  # noqa
            tb = traceback.extract_tb(e.__traceback__)
            injected_site = tb and (tb[-1].filename.endswith("seams.py") or tb[-1].name == "local_trace")
            if tb and tb[-1].filename.startswith(HERE) and not injected_site and not (isinstance(e, LookupError) and str(e).strip("'") in ("no-handle", "no-stored-output")):
                # raised by the simulator's own code, not by cij or a library under it: a harness error, never an observation
                raise RuntimeError(f"harness bug in {kind} handler: {type(e).__name__}: {e} at {tb[-1].filename}:{tb[-1].lineno}") from e
            rec["status"] = "exc"
            rec["exc"] = [type(e).__name__, norm_msg(e, self.root)]
            rec["where"] = self._where(e)
        finally:
            if tracer is not None:
                tracer.fault = None      # a line fault planned for this attempt that did not fire must not fire in a later attempt
            if uninstall_trace:
                sys.settrace(None)
                self.stats["line_events"] += tracer.steps
        out = self.stdout.stop()
        if self.profile is not None:
            self.profile.append({"client": client, "op": i, "kind": kind, "opens": list(getattr(self.seams.ctx, "open_log", [])),
                                 "lines": tracer.steps if tracer is not None else 0, "status": rec["status"],
                                 "sites": [[k, v[0], v[1]] for k, v in sorted((getattr(tracer, "sites", None) or {}).items())]})
        writes, reads = self.seams.end_op()
        mine = [f for f in self.seams.fault_fired if tuple(f[1:4]) == (client, i, attempt)]
        if mine and rec["status"] != "ok":
            injected = injected or mine[-1][0]
        for f in mine:
            site = f"{f[0]}@{kind}"
            self.stats["fault_sites"][site] = self.stats["fault_sites"].get(site, 0) + 1
        if injected in ("cancel", "alloc-fail"):
            site = f"{injected}@{kind}:{getattr(tracer, 'fault_site', '?')}"
            self.stats["fault_sites"][site] = self.stats["fault_sites"].get(site, 0) + 1
            self.stats["faults_fired"][injected] = self.stats["faults_fired"].get(injected, 0) + 1
        rec["stdout"] = sha(out.encode()) if out else None
        rec["stdout_len"] = len(out)
        rec["_stdout_text"] = out
        rec["writes"] = sorted(set(writes))
        self._after_attempt(client, i, op, rec, injected, before, writes)
        rec.pop("_stdout_text", None)
        return rec, injected

    def _where(self, e):
        tb = traceback.extract_tb(e.__traceback__)
        for fr in reversed(tb):
            if fr.filename.startswith(REPO_CIJ) or "/site-packages/" in fr.filename:
                fn = fr.filename.split("/site-packages/")[-1].replace(REPO_CIJ[:-4], "")
                return f"{fn}:{fr.name}"
        return None

    # -- post-attempt bookkeeping: disk model, frame condition ------------------------
    def _after_attempt(self, client, i, op, rec, injected, before, writes):
        kind = op["op"]
        # files: record bytes of everything opened for writing in this attempt
        files = []
        for relp in sorted(set(writes)):
            p = os.path.join(self.root, relp)
            try:
                b = S.read_bytes(p)
                files.append([self._client_rel(client, relp), sha(b), len(b)])
            except OSError:
                files.append([self._client_rel(client, relp), None, -1])
        rec["files"] = files
        if injected or rec["status"] != "ok":
            for relp in set(writes):
                if relp in self.disk or kind in ("calc.write", "cli.run", "io.write_energy"):
                    self.disk[relp] = {"state": "indeterminate", "writer": client}
                    self.probe("file_indeterminate")
        if "O-frame" in self.oracles and before is not None:
            after = S.snapshot_tree(self.root)
            drv = getattr(self, "driver_writes", set())
            changed = sorted(k for k in set(before) | set(after) if before.get(k) != after.get(k) and k not in drv)
            self.driver_writes = set()
            allowed = set(rec.get("_expected_files", [])) if rec["status"] == "ok" and not injected else None
            wset = set(writes)
            for k in changed:
                if allowed is not None and kind in ("calc.write", "cli.run"):
                    # a writing operation is judged by WHAT changed (how it got there -- open, rename, another API -- is cij's business)
                    if k not in allowed:
                        self.verdict("O-frame", "C15", client, i, f"{kind} changed {k}, which is not among the files its keywords denote", expected=sorted(allowed))
                elif k not in wset:
                    self.verdict("O-frame", "C15", client, i, f"file {k} changed although the operation never opened it for writing")
            if allowed is not None and kind in ("calc.write", "cli.run"):
                for k in sorted(allowed - wset):
                    if k not in after:
                        self.verdict("O-frame", "C14", client, i, f"{kind} completed but {k}, which its keywords denote, is not in the working directory the client is in")
                        break
            if kind in READ_ONLY_OPS and (changed or wset):
                self.verdict("O-frame", "C14", client, i, f"read-only operation {kind} wrote {sorted(wset | set(changed))}")
            for k in changed:
                for other in self.clients():
                    if other == client:
                        continue
                    ow = self.sc["worlds"][other]
                    if ow["datadir"] != self.cwd_rel[client] and k.startswith(ow["datadir"] + "/") and k in self.file_texts:
                        self.verdict("O-frame", "C14", client, i, f"input file {k} of client {other} was modified")
        rec.pop("_expected_files", None)

    def _client_rel(self, client, relp):
        return relp

    # =========================================================================
    # operations
    # =========================================================================

    def _settings_path(self, client, op):
        w = self.sc["worlds"][client]
        p = os.path.join(self.root, w["datadir"], w["settings_name"])
        if op.get("abs", True):
            return p
        return os.path.relpath(p, self._cwd_of(client))

    def op_calc_new(self, client, i, op):
        import cij.core.calculator as cc
        w = self.sc["worlds"][client]
        path = self._settings_path(client, op)
        try:
            calc = cc.Calculator(path)
        except Exception as e:
            if op.get("expect_ok") and "O-inv" in self.oracles and not self._injected_now():
                self.verdict("O-inv", "C12", client, i,
                             f"calculation on a valid configuration did not complete: {type(e).__name__}: {norm_msg(e, self.root)}",
                             where=self._where(e), config=self._cfg_summary(w))
            raise
        h = Handle(calc, w, path)
        self.handles[client][op["h"]] = h
        if len([1 for c in self.handles.values() for _ in c]) > 1:
            self.probe("two_calculators_alive")
        cfg = self._cfg_summary(w)
        self.cover("interp_order", f"{cfg['interpolator']}:{cfg['order']}")
        self.cover("system", cfg["system"])
        self.cover("dt_class", cfg["dt_class"])
        if "O-inv" in self.oracles:
            self._check_inv_calc(client, i, h, light=bool(op.get("inv_light")))
        if "O-round" in self.oracles:
            self._check_round_calc(client, i, h)
        keys = sorted("%d%d" % k.v for k in calc.modulus_keys)
        return {"keys": keys, "dims": list(calc.dims)}

    def op_calc_edge(self, client, i, op):
        """C12: the same calculation with DELTA_P stretched so that the LAST requested pressure lies a fraction u of one step below the top of the
        computed range (the smallest over all temperature rows of the largest pressure on the volume grid -- read from a calculator built with the
        client's own settings).  Inside the range, hence valid: it must complete and satisfy the invariants."""
        import cij.core.calculator as cc
        w = self.sc["worlds"][client]
        base_path = os.path.join(self.root, w["datadir"], w["settings_name"])
        saved = self.seams.ctx.client
        self.seams.ctx.client = None          # the probe calculator is the simulator's: keep it out of the event log and of the fault plan
        try:
            probe = cc.Calculator(base_path)
            p = numpy.asarray(probe.volume_base.pressures, dtype=float) * U.FACTORS[("ry/bohr3", "GPa")]
        finally:
            self.seams.ctx.client = saved
        top = float(min(p.max(axis=1).min(), p[:, -1].min()))     # never above the bound cij itself applies (smallest over the rows of the last column)
        q = dict(W.effective_qha(w))
        pmin, ntv = float(q["P_MIN"]), int(q["NTV"])
        if not (numpy.isfinite(top) and top > pmin + 1e-6):
            self.probe("edge_skipped_no_range")
            return {}
        w2 = copy.deepcopy(w)
        qs = w2["settings"]["qha"]["settings"]
        qs["DELTA_P"] = (top - pmin) / ((ntv - 1) + float(op["u"]))
        qs.pop("DELTA_P_SAMPLE", None)
        w2["settings_name"] = "settings_edge." + w["spelling"]
        path = os.path.join(self.root, w["datadir"], w2["settings_name"])
        S.write_text(path, W.settings_text(w2))
        self.driver_writes = getattr(self, "driver_writes", set()) | {os.path.relpath(path, self.root)}
        try:
            calc = cc.Calculator(path)
        except Exception as e:
            if "O-inv" in self.oracles and not self._injected_now():
                self.verdict("O-inv", "C12", client, i, f"calculation with the last requested pressure {op['u']} of a step below the top of the computed range "
                             f"({top:.6g} GPa) did not complete: {type(e).__name__}: {norm_msg(e, self.root)}", where=self._where(e), config=self._cfg_summary(w))
            raise
        h = Handle(calc, w2, path)
        self.handles[client][op["h"]] = h
        self.probe("edge_of_pressure_range_checked")
        if "O-inv" in self.oracles:
            self._check_inv_calc(client, i, h)
        return {"dims": list(calc.dims)}

    def _injected_now(self):
        """did an injected fault fire during the current attempt (so its failure is the fault's, not cij's)?"""
        c = self.seams.ctx
        me = (getattr(c, "client", None), getattr(c, "op", None), getattr(c, "attempt", None))
        if any(tuple(f[1:4]) == me for f in self.seams.fault_fired):      # fault_fired is shared by the threads of a segment: only MY faults count
            return True
        tr = getattr(c, "tracer", None)
        return tr is not None and tr.fault_site is not None and tr.fired_in == (getattr(c, "client", None), getattr(c, "op", None), getattr(c, "attempt", None))

    def _cfg_summary(self, w):
        s = w["settings"]
        mg = s["elast"]["settings"]["mode_gamma"]
        q = W.effective_qha(w)          # keys the settings file leaves out take the documented defaults
        dt = float(q["DT"])
        return {"interpolator": mg["interpolator"], "order": mg.get("order", 3),
                "system": w["static"]["system"], "DT": dt, "T_MIN": q["T_MIN"], "NT": q["NT"], "NTV": q["NTV"],
                "dt_class": "<=2" if dt <= 2 else ("<=25" if dt <= 25 else (">100" if dt > 100 else "<=100")),
                "nv": w["phonon"]["nv"], "lattice": w["static"]["lattice"] is not None}

    def _get_handle(self, client, op):
        h = self.handles[client].get(op["h"])
        if h is None:
            raise LookupError("no-handle")
        return h

    def _resolve(self, h, base, name):
        from cij.util import c_
        calc = h.calc
        if base == "calc":
            if name == "config":
                return ("json", json.dumps(calc.config, sort_keys=True, default=str))
            if name == "modulus_keys":
                return ("json", json.dumps(sorted("%d%d" % k.v for k in calc.modulus_keys)))     # the set of keys; their order is not a result
            if name == "qha_input":
                return ("json", repr(calc.qha_input))
            if name == "elast_data":
                ed = calc.elast_data
                return ("json", repr((ed.vref, ed.nv, ed.cellmass, [(v.volume, sorted((("%d%d" % k.v) if hasattr(k, "v") else repr(k), float(x)) for k, x in v.static_elastic_modulus.items())) for v in ed.volumes], ed.lattice_parmeters)))
            if name.startswith("mode_gamma"):
                return ("arr", calc.mode_gamma[int(name[-1])])
            return ("arr", getattr(calc, name))
        obj = calc.volume_base if base == "tv" else calc.pressure_base
        if ":" in name:
            attr, key = name.split(":")
            return ("arr", getattr(obj, attr)[c_(key)])
        return ("arr", getattr(obj, name))

    def op_calc_read(self, client, i, op):
        h = self._get_handle(client, op)
        try:
            kind, val = self._resolve(h, op["base"], op["name"])
        except Exception as e:
            if ("O-inv" in self.oracles and op["base"] == "tv" and not self._injected_now()
                    and (op["name"].startswith("modulus_") or op["name"] in ("bulk_modulus_voigt", "bulk_modulus_reuss", "bulk_modulus_voigt_reuss_hill", "shear_modulus_voigt",
                                                                             "shear_modulus_reuss", "shear_modulus_voigt_reuss_hill", "primary_velocities", "secondary_velocities"))):
                self.verdict("O-inv", "C12", client, i, f"volume_base.{op['name']} of a completed calculation is not available: {type(e).__name__}: {norm_msg(e, self.root)[:120]}",
                             config=self._cfg_summary(h.world))
            raise
        if kind == "json":
            d = ["json", len(val), sha(val.encode())]
        else:
            a = numpy.asarray(val)
            d = arr_digest(a)
            if "O-inv" in self.oracles:
                self._check_inv_read(client, i, h, op["base"], op["name"], a)
        key = (op["base"], op["name"])
        if key in h.read_digests:
            self.probe("reread")
            if h.read_digests[key] != d and "O-twice" in self.oracles:
                self.verdict("O-twice", "C14", client, i, f"reading {op['base']}.{op['name']} twice returned different data",
                             expected=h.read_digests[key], actual=d)
        else:
            h.read_digests[key] = d
        if key != ("calc", "config"):
            prev = self.client_reads[client].get(key)
            if prev is None:
                self.client_reads[client][key] = (d, op["h"])
            elif prev[1] != op["h"]:
                self.probe("reread_on_another_calculator")
                if prev[0] != d and "O-twice" in self.oracles:
                    self.verdict("O-twice", "C14", client, i,
                                 f"the same calculation performed again in the same process disagrees with itself: {op['base']}.{op['name']} of calculator {op['h']} "
                                 f"differs from that of calculator {prev[1]} built earlier from the same settings", expected=prev[0], actual=d)
        if "O-round" in self.oracles and op["base"] == "calc" and op["name"] in ("qha_input", "elast_data"):
            self._check_round_calc(client, i, h)
        return {"array": d}

    def op_env_mutate_config(self, client, i, op):
        h = self._get_handle(client, op)
        cfg = h.calc.config
        what = op["what"]
        out = cfg.get("output") or {}
        aliased = out.get("pressure_base") is not None and out.get("pressure_base") is out.get("volume_base")   # YAML anchor: ONE list object
        if aliased:
            self.probe("output_lists_aliased")
        if what == "append_output":
            base = op["base"]
            cfg.setdefault("output", {}).setdefault(base, []).append(op["entry"])
            h.eff_output.setdefault(base, []).append(op["entry"])
            if aliased:     # the user appended to the one list both bases refer to
                other = "volume_base" if base == "pressure_base" else "pressure_base"
                h.eff_output.setdefault(other, []).append(op["entry"])
        elif what == "set_symmetry":
            cfg["elast"]["settings"].setdefault("symmetry", {})[op["key"]] = op["value"]
        elif what == "clear_output_base":
            base = op["base"]
            cfg.setdefault("output", {})[base] = []
            h.eff_output[base] = []
        self.probe("mutate_config")
        h.config_gen += 1
        h.read_digests.pop(("calc", "config"), None)    # the client changed its own config: a later read legitimately differs
        return {}

    def op_env_chdir(self, client, i, op):
        """the client's script changes its working directory (os.chdir is the driver's: the next operation starts there)"""
        new = op["to"]
        os.makedirs(os.path.join(self.root, new), exist_ok=True)
        if new != self.cwd_rel[client]:
            self.probe("chdir")
        self.cwd_rel[client] = new
        return {}

    def op_env_clutter(self, client, i, op):
        """unrelated entries appear in the client's current working directory in the middle of the history
        (session only: the solo reference keeps its directory clean)"""
        if not self.session:
            return {}
        for c in op["entries"]:
            d = os.path.join(self._cwd_of(client) if c.get("where", "cwd") == "cwd" else os.path.join(self.root, self.sc["worlds"][client]["datadir"]))
            p = os.path.join(d, c["name"])
            if os.path.lexists(p):
                continue
            made = []
            if c["kind"] == "dir":
                os.makedirs(p, exist_ok=True)
                for sub in c.get("children", []):
                    S.write_text(os.path.join(p, sub["name"]), sub.get("text", ""))
                    made.append(os.path.join(p, sub["name"]))
            else:
                S.write_text(p, c.get("text", ""))
                made.append(p)
            self.driver_writes = getattr(self, "driver_writes", set()) | {os.path.relpath(m, self.root) for m in made}
            self.seams.touch(os.path.relpath(p, self.root), created=True)
            self.probe("clutter_entries")
            self.probe("clutter_mid_session")
        return {}

    def op_calc_drop(self, client, i, op):
        """the client drops a calculator (del + gc): a later object may re-use its id()"""
        import gc
        h = self.handles[client].pop(op["h"], None)
        if h is None:
            raise LookupError("no-handle")
        for relp, m in self.disk.items():
            if m.get("handle_id") == id(h):
                m["handle_id"] = None
        del h
        gc.collect()
        self.probe("calc_dropped")
        return {}

    # -- writing ------------------------------------------------------------------
    def op_calc_write(self, client, i, op):
        h = self._get_handle(client, op)
        spec = op.get("vars")
        if spec is None:
            plan = [("pressure_base", list(h.eff_output.get("pressure_base", []))),
                    ("volume_base", list(h.eff_output.get("volume_base", [])))]
            plan = [(b, es) for b, es in plan if b in h.eff_output]
        elif spec["base"] == "both":
            plan = [("pressure_base", list(spec["list"])), ("volume_base", list(spec["list"]))]
        else:
            plan = [(spec["base"], list(spec["list"]))]
        expected = self._expected_files(client, h, plan) if ("O-disk" in self.oracles or "O-frame" in self.oracles or True) else None
        try:
            if spec is None:
                h.calc.write_output()
            elif spec["base"] == "both":
                lst = copy.deepcopy(spec["list"])       # ONE list object handed to both bases, as a user script (or a YAML anchor) would
                h.calc.pressure_base.write_variables(lst)
                h.calc.volume_base.write_variables(lst)
                self.probe("one_list_object_for_both_bases")
            else:
                obj = h.calc.pressure_base if spec["base"] == "pressure_base" else h.calc.volume_base
                obj.write_variables(spec["list"])
        except Exception as e:
            if "O-disk" in self.oracles and not self._injected_now() and self._all_entries_valid(plan) and not self._pressures_bracketed(h):
                self.probe("write_failed_requested_pressures_not_bracketed")     # outside the precondition "requested pressures inside the computed range"
            elif "O-disk" in self.oracles and not self._injected_now() and self._all_entries_valid(plan):
                self.verdict("O-disk", "C15", client, i, f"writing the requested outputs failed although no fault was injected in this attempt: {type(e).__name__}: {norm_msg(e, self.root)[:160]}")
            raise
        self._post_write(client, i, h, expected)
        if spec is None and "O-twice" in self.oracles:
            names = sorted({os.path.basename(w) for w in getattr(self.seams.ctx, "writes", [])})
            if h.output_files is not None and h.output_files[0] == h.config_gen:
                self.probe("write_output_twice_same_config")
                if h.output_files[1] != names:
                    gone = sorted(set(h.output_files[1]) - set(names))
                    new = sorted(set(names) - set(h.output_files[1]))
                    self.verdict("O-twice", "C14", client, i, f"write_output() called again on the same calculator with an unchanged configuration wrote other files: "
                                 f"no longer {gone[:4]}, now {new[:4]}")
            h.output_files = (h.config_gen, names)
        cwd = self.cwd_rel[client]
        return {"_expected_files": [cwd + "/" + e["fname"] for e in expected], "n_expected": len(expected)}

    def op_cli_run(self, client, i, op):
        from cij.cli.cij import main
        w = self.sc["worlds"][client]
        path = self._settings_path(client, op)
        args = ["run", path]
        if op.get("debug"):
            args += ["--debug", op["debug"]]
        # expectations need a calculator object: the in-memory side of O-disk is taken from a
        # twin calculator the simulator builds itself *after* the command (same process, same inputs)
        main(args=args, standalone_mode=False)
        import logging
        logging.getLogger("cij").handlers[:] = []
        cwd = self.cwd_rel[client]
        res = {}
        if "O-disk" in self.oracles or "O-frame" in self.oracles:
            import cij.core.calculator as cc
            saved = self.seams.ctx.client
            self.seams.ctx.client = None     # the twin is the simulator's, not the client's: keep it out of the event log
            try:
                twin = cc.Calculator(path)
            finally:
                self.seams.ctx.client = saved
            h = Handle(twin, w, path)
            plan = [(b, list(h.eff_output[b])) for b in ("pressure_base", "volume_base") if b in h.eff_output]
            expected = self._expected_files(client, h, plan)
            self._post_write(client, i, h, expected)
            res = {"_expected_files": [cwd + "/" + e["fname"] for e in expected], "n_expected": len(expected)}
        return res

    def _pressures_bracketed(self, h):
        """the precondition 'requested pressures inside the computed range', evaluated from the calculator's own pressure field: at every
        temperature row (guard rows included) every requested pressure lies inside the field with the two nodes of margin the four-point
        conversion stencil needs"""
        try:
            p = numpy.asarray(h.calc.volume_base.pressures, dtype=float)
            want = numpy.asarray(h.calc.pressure_base.p_array, dtype=float)
            ps = numpy.sort(p, axis=1)
            return bool(numpy.isfinite(p).all() and (ps[:, 2] <= want.min()).all() and (want.max() <= ps[:, -3]).all()
                        and ((numpy.diff(p, axis=1) > 0).all() or (numpy.diff(p, axis=1) < 0).all()))
        except Exception:
            return False

    def _all_entries_valid(self, plan):
        """every entry names a documented keyword that exists on the base it is requested for"""
        by_kw = {kw: r for r in W.rules()["rules"] for kw in r["keywords"]}
        for base_name, entries in plan:
            base = "tp" if base_name == "pressure_base" else "tv"
            for e in entries:
                r = by_kw.get(e if isinstance(e, str) else e.get("keyword"))
                if r is None or base not in r["bases"]:
                    return False
        return True

    def _expected_keys(self, h):
        st = h.world["static"]
        system = h.world["settings"]["elast"]["settings"].get("symmetry", {}).get("system", "triclinic")
        if system == "triclinic":
            return list(st["keys"])
        return W.nonzero_keys(system)

    def _expected_files(self, client, h, plan):
        """-> list of {fname, base, rule, key, factor, unit}; later entries win on equal fname."""
        rules = W.rules()["rules"]
        by_kw = {}
        for r in rules:
            for kw in r["keywords"]:
                by_kw[kw] = r
        out = []
        for base_name, entries in plan:
            base = "tp" if base_name == "pressure_base" else "tv"
            for e in entries:
                cfg = {"keyword": e} if isinstance(e, str) else dict(e)
                r = by_kw.get(cfg["keyword"])
                if r is None:
                    continue
                unit = cfg.get("unit", r["unit"])
                factor = U.FACTORS[(r["internal"], unit)]
                if r["kind"] == "value":
                    fname = cfg.get("fname") or r["pattern"].format(base=base)
                    out.append({"fname": fname, "base": base, "rule": r, "key": None, "factor": factor, "unit": unit, "kw": cfg["keyword"]})
                else:
                    for key in self._expected_keys(h):
                        fname = cfg.get("fname") or r["pattern"].format(base=base, ij=key)
                        out.append({"fname": fname, "base": base, "rule": r, "key": key, "factor": factor, "unit": unit, "kw": cfg["keyword"]})
        last = {}
        bases_of = {}
        for e in out:
            last[e["fname"]] = e
            bases_of.setdefault(e["fname"], set()).add(e["base"])
        res = list(last.values())
        for e in res:
            if len(bases_of[e["fname"]]) > 1:
                # one file name denoted by entries of both bases: the order in which write_output serves the bases is documented nowhere,
                # so either table is acceptable -- existence and well-formedness only (C14 still demands that it is the SAME one every time)
                e["ambiguous"] = True
        return res

    def _memory_value(self, h, e):
        from cij.util import c_
        obj = h.calc.pressure_base if e["base"] == "tp" else h.calc.volume_base
        v = getattr(obj, e["rule"]["attr"])
        if e["key"] is not None:
            v = v[c_(e["key"])]
        return numpy.asarray(v)

    def _post_write(self, client, i, h, expected):
        cwd = self.cwd_rel[client]
        h.write_cwds.add(cwd)
        if len(h.write_cwds) > 1:
            self.probe("same_calculator_written_from_two_cwds")
        q = W.effective_qha(h.world)
        for e in expected:
            relp = cwd + "/" + e["fname"]
            prev = self.disk.get(relp)
            if prev is not None and prev.get("writer") not in (None, client):
                self.probe("file_overwritten_by_other_client")
            if prev is not None and prev.get("state") == "indeterminate":
                self.probe("torn_file_rewritten")
            mem = None
            try:
                mem = self._memory_value(h, e)
            except Exception as ex:  # the in-memory side is unavailable: nothing to compare with
                self.probe("memory_value_unavailable")
            self.disk[relp] = {"state": "ok", "writer": client, "entry": e, "mem": mem, "q": q,
                               "v_array": numpy.asarray(h.calc.volume_base.v_array), "handle_id": id(h)}
            self.cover("keyword", e["kw"] + ":" + e["base"])
            if e["unit"] != e["rule"]["unit"]:
                self.probe("unit_override")
            if e["fname"] != (e["rule"]["pattern"].format(base=e["base"], ij=e["key"]) if e["key"] else e["rule"]["pattern"].format(base=e["base"])):
                self.probe("fname_override")
            if "O-disk" in self.oracles:
                self._check_disk_file(client, i, relp)
            # aliases / repeated writes of the same thing must give identical bytes
            try:
                b = S.read_bytes(os.path.join(self.root, relp))
            except OSError:
                b = None
            sig = (e["base"], e["rule"]["attr"], e["key"], e["unit"])
            if b is not None and not e.get("ambiguous"):
                if sig in h.write_bytes:
                    self.probe("rewrite_same_variable")
                    if h.write_bytes[sig][1] != e["kw"]:
                        self.probe("alias_rewrite")
                    if h.write_bytes[sig][0] != sha(b) and "O-twice" in self.oracles:
                        self.verdict("O-twice", "C15" if h.write_bytes[sig][1] != e["kw"] else "C14", client, i,
                                     f"writing {sig} again (keyword {e['kw']}, before {h.write_bytes[sig][1]}) produced different bytes in {relp}")
                h.write_bytes[sig] = (sha(b), e["kw"])
                if e["key"] is not None and e["rule"]["attr"] in ("modulus_adiabatic", "modulus_isothermal"):
                    kb = h.kind_bytes.setdefault((e["base"], e["key"], e["unit"]), {})
                    kb[e["rule"]["attr"]] = sha(b)
                    if len(kb) == 2 and kb["modulus_adiabatic"] == kb["modulus_isothermal"] and "O-disk" in self.oracles:
                        try:
                            from cij.util import c_
                            ad = numpy.asarray(h.calc.modulus_adiabatic[c_(e["key"])])
                            iso = numpy.asarray(h.calc.modulus_isothermal[c_(e["key"])])
                            differ = float(numpy.max(numpy.abs(ad - iso))) > 1e-6 * float(numpy.max(numpy.abs(ad)))
                        except Exception:
                            differ = False
                        if differ:
                            self.verdict("O-disk", "C15", client, i, f"the adiabatic and the isothermal keyword produced identical files for c{e['key']} on {e['base']} "
                                         f"although the two tensors differ in memory: the keywords do not select the corresponding tensors")
                        else:
                            self.probe("ad_iso_identical_in_memory")
                    elif len(kb) == 2:
                        self.probe("ad_iso_files_differ")
                prevw = self.client_writes[client].get(sig)
                if prevw is None:
                    self.client_writes[client][sig] = (sha(b), id(h))
                elif prevw[1] != id(h):
                    self.probe("rewrite_by_another_calculator")
                    if prevw[0] != sha(b) and "O-twice" in self.oracles:
                        self.verdict("O-twice", "C14", client, i,
                                     f"the same calculation performed again in the same process disagrees with itself: {relp} ({e['kw']}) written by a second "
                                     f"calculator built from the same settings differs from what the first one wrote")

    def _check_disk_file(self, client, i, relp, final=False):
        m = self.disk[relp]
        if m.get("state") != "ok" or m.get("stub"):
            return
        e, mem, q = m["entry"], m["mem"], m["q"]
        tag = "final: " if final else ""
        p = os.path.join(self.root, relp)
        try:
            text = S.read_bytes(p).decode()
        except OSError as ex:
            self.verdict("O-disk", "C15", client, i, f"{tag}expected output file {relp} does not exist ({e['kw']})")
            return
        try:
            t = TB.parse_table_numeric(text)
        except Exception as ex:
            self.verdict("O-disk", "C15", client, i, f"{tag}{relp} is not a well-formed table: {ex}")
            return
        if e.get("ambiguous"):
            self.probe("disk_file_shared_by_both_bases_wellformed_only")
            return
        nt, ntv = int(q["NT"]), int(q["NTV"])
        if len(t["rows"]) != nt:
            self.verdict("O-disk", "C15", client, i, f"{tag}{relp}: {len(t['rows'])} temperature rows, requested NT={nt}")
            return
        if len(t["cols"]) != ntv:
            self.verdict("O-disk", "C15", client, i, f"{tag}{relp}: {len(t['cols'])} columns, requested NTV={ntv}")
            return
        for k, tok in enumerate(t["row_tok"]):
            exp = float(q["T_MIN"]) + k * float(q["DT"])
            if not abs(TB.tok_float(tok) - exp) <= 1e-6 + 1e-9 * abs(exp):
                self.verdict("O-disk", "C15", client, i, f"{tag}{relp}: row label {tok} != T_MIN+{k}*DT = {exp}")
                return
        if e["base"] == "tp":
            for j, tok in enumerate(t["col_tok"]):
                exp = float(q["P_MIN"]) + j * float(q["DELTA_P"])
                if not abs(TB.tok_float(tok) - exp) <= 1e-6:
                    self.verdict("O-disk", "C15", client, i, f"{tag}{relp}: column label {tok} != P_MIN+{j}*DELTA_P = {exp} GPa")
                    return
        else:
            va = m["v_array"] * U.FACTORS[("bohr3", "angstrom3")]
            for j, tok in enumerate(t["col_tok"]):
                if not abs(TB.tok_float(tok) - float(va[j])) <= 1e-6 + 1e-8 * abs(float(va[j])):
                    self.verdict("O-disk", "C15", client, i, f"{tag}{relp}: column label {tok} != grid volume {va[j]} A^3")
                    return
        if mem is None:
            return
        if mem.ndim != 2 or mem.shape[0] < nt or mem.shape[1] != ntv:
            self.verdict("O-disk", "C15", client, i, f"{tag}{relp}: in-memory result has shape {mem.shape}, file is {nt}x{ntv}")
            return
        fv = numpy.array(t["vals"], dtype=float)
        mv = mem[:nt, :].astype(float)
        nan_f, nan_m = numpy.isnan(fv), ~numpy.isfinite(mv)
        if (numpy.isnan(fv) != numpy.isnan(mv)).any() and not (numpy.isinf(mv).any()):
            self.verdict("O-disk", "C15", client, i, f"{tag}{relp}: NaN pattern of file and in-memory result differ")
            return
        ok = numpy.isfinite(fv) & numpy.isfinite(mv) & (numpy.abs(mv) > 1e-290)
        if ok.any():
            ratio = fv[ok] / mv[ok]
            f0 = float(numpy.median(ratio))
            dev = float(numpy.max(numpy.abs(ratio / f0 - 1))) if f0 != 0 else math.inf
            # "to the printed precision": the tables carry 16 significant digits today (tolerance 1e-12); should a version of cij print fewer,
            # the tolerance follows the coarsest relative precision actually printed
            toks = [tk for row in t["val_tok"] for tk in row]
            printed = max([TB._decimals_tol(tk) / abs(TB.tok_float(tk)) for tk in toks if TB.tok_float(tk) == TB.tok_float(tk) and abs(TB.tok_float(tk)) > 1e-290
                           and not math.isinf(TB.tok_float(tk))] + [0.0])
            if dev > max(1e-12, 4.0 * printed):
                jj = int(numpy.argmax(numpy.abs(ratio / f0 - 1)))
                self.verdict("O-disk", "C15", client, i,
                             f"{tag}{relp} ({e['kw']}): file/in-memory ratio is not one constant: spread {dev:.3e} (median {f0!r})",
                             detail={"attr": e["rule"]["attr"], "key": e["key"], "base": e["base"]})
                return
            if abs(f0 / e["factor"] - 1) > 1e-8:
                self.verdict("O-disk", "C15", client, i,
                             f"{tag}{relp} ({e['kw']}, unit {e['unit']}): file = {f0!r} x in-memory, documented unit needs {e['factor']!r}",
                             detail={"attr": e["rule"]["attr"], "key": e["key"], "base": e["base"]})
                return
        z = numpy.isfinite(mv) & (numpy.abs(mv) <= 1e-290)
        if z.any() and (numpy.abs(fv[z]) > 1e-280).any():
            self.verdict("O-disk", "C15", client, i, f"{tag}{relp}: non-zero file entries where in-memory result is zero")
        self.probe("disk_file_checked" + ("_final" if final else ""))

    def _final_checks(self):
        if "O-disk" in self.oracles:
            for relp in sorted(self.disk):
                m = self.disk[relp]
                if m.get("state") == "ok" and not m.get("stub"):
                    self._check_disk_file(m["writer"], -1, relp, final=True)

    # -- O-inv -------------------------------------------------------------------
    def _check_inv_calc(self, client, i, h, light=False):
        """invariants on a freshly constructed calculator (all components, both tensors)."""
        from cij.util import c_
        calc = h.calc
        w = h.world
        t = numpy.asarray(calc.t_array, dtype=float)
        after = self.stats["attempts"] > 0 or len(self.handles) > 1
        tag = "after-history" if (self.session and (self.stats["ops"] > 1)) else "plain-sweep"
        self.probe("inv_calc_" + tag)
        try:
            cv = numpy.asarray(calc.qha_calculator.volume_base.heat_capacity)
        except Exception:
            cv = None
        cfg = self._cfg_summary(w)
        iso_all, ad_all = {}, {}
        for key in calc.modulus_keys:
            ks = "%d%d" % key.v
            iso = numpy.asarray(calc.modulus_isothermal[key])
            ad = numpy.asarray(calc.modulus_adiabatic[key])
            iso_all[ks], ad_all[ks] = iso, ad
            if iso.dtype != numpy.float64:
                self.verdict("O-inv", "C12", client, i, f"isothermal c{ks} has dtype {iso.dtype}, not float64", config=cfg)
                return
            if not numpy.isfinite(iso).all():
                bad = numpy.argwhere(~numpy.isfinite(iso))
                ti = sorted(set(int(b[0]) for b in bad))
                self.verdict("O-inv", "C12", client, i,
                             f"isothermal c{ks} is not finite at {len(bad)} grid points (temperature rows {ti[:6]}: T={[float(t[k]) for k in ti[:6]]})",
                             config=cfg, sig="iso-nonfinite")
                return
            if ad.dtype != numpy.float64:
                self.verdict("O-inv", "C12", client, i, f"adiabatic c{ks} has dtype {ad.dtype}, not float64", config=cfg)
                return
            if cv is not None:
                need = (cv > 0) | (t[:, None] == 0)
                if not numpy.isfinite(ad[need]).all():
                    bad = numpy.argwhere(need & ~numpy.isfinite(ad))
                    self.verdict("O-inv", "C12", client, i,
                                 f"adiabatic c{ks} is not finite at {len(bad)} grid points where C_V>0 or T=0 (first: row {int(bad[0][0])} T={float(t[bad[0][0]])})",
                                 config=cfg, sig="ad-nonfinite")
                    return
            if t[0] == 0:
                if not float(numpy.max(numpy.abs(ad[0] - iso[0]))) <= 1e-13 * (float(numpy.max(numpy.abs(iso))) or 1.0):
                    self.verdict("O-inv", "C12", client, i, f"at T=0 adiabatic c{ks} differs from isothermal c{ks} (thermal term does not vanish)", config=cfg, sig="t0-gap")
                    return
                if len(t) > 1 and 0 < t[1] <= 2.0:
                    scale = max([float(numpy.max(numpy.abs(numpy.asarray(calc.modulus_isothermal[k2])))) for k2 in calc.modulus_keys] + [1e-300])   # the tensor's scale, not the component's
                    d = float(numpy.max(numpy.abs(iso[1] - iso[0])))
                    if not d <= 1e-6 * scale:
                        self.verdict("O-inv", "C12", client, i,
                                     f"c{ks}(T={t[1]}) - c{ks}(0) = {d:.3e} exceeds 1e-6 x {scale:.3e}: no continuity as T->0", config=cfg, sig="t0-limit")
                        return
                    self.probe("t_to_0_limit_checked")
        # averages and velocities on the volume base, where the adiabatic stiffness is positive definite
        if light:
            self.probe("inv_calc_light")
        elif all(k in ad_all for k in W.ORTHO9):
            nt, nvv = calc.dims
            C = numpy.zeros((nt, nvv, 6, 6))
            for ks, a in ad_all.items():
                a_, b_ = int(ks[0]) - 1, int(ks[1]) - 1
                if numpy.isfinite(a).all():
                    C[:, :, a_, b_] = a
                    C[:, :, b_, a_] = a
                else:
                    C[:, :, a_, b_] = numpy.nan
                    C[:, :, b_, a_] = numpy.nan
            fin = numpy.isfinite(C).all(axis=(2, 3))
            pd = numpy.zeros((nt, nvv), dtype=bool)
            if fin.any():
                ev = numpy.linalg.eigvalsh(numpy.where(fin[:, :, None, None], C, numpy.eye(6)))
                scale = numpy.max(numpy.abs(numpy.where(fin[:, :, None, None], C, 0)), axis=(2, 3))
                pd = fin & (ev.min(axis=2) > 1e-9 * scale)
            h.pd_mask = pd
            self.probe("pd_points", int(pd.sum()))
            for name in ("bulk_modulus_voigt", "bulk_modulus_reuss", "bulk_modulus_voigt_reuss_hill",
                         "shear_modulus_voigt", "shear_modulus_reuss", "shear_modulus_voigt_reuss_hill",
                         "primary_velocities", "secondary_velocities"):
                try:
                    a = numpy.asarray(getattr(calc.volume_base, name))
                except Exception as e:
                    if self._injected_now() or "injected" in str(e):
                        raise       # a still-armed injected fault went off inside the monitor's own read: the fault's failure, not cij's
                    self.verdict("O-inv", "C12", client, i, f"volume_base.{name} raised {type(e).__name__}: {norm_msg(e, self.root)}", config=cfg)
                    return
                if a.dtype.kind == "c" or not numpy.isfinite(a[pd]).all():
                    self.verdict("O-inv", "C12", client, i, f"volume_base.{name} is not finite/real at positive-definite grid points", config=cfg, sig="avg-nonfinite")
                    return
        self.probe("inv_calc_checked")

    def _check_inv_read(self, client, i, h, base, name, a):
        if a.dtype.kind == "c":
            self.verdict("O-inv", "C12", client, i, f"{base}.{name} is complex", config=self._cfg_summary(h.world))
            return
        if base == "tp" and a.ndim == 2 and a.dtype.kind == "f":
            calc = h.calc
            if name.startswith("modulus_isothermal") :
                p = numpy.asarray(calc.volume_base.pressures)
                want = numpy.asarray(calc.pressure_base.p_array)
                lo, hi = p.min(axis=1), p.max(axis=1)
                mono = (numpy.diff(p, axis=1) > 0).all(axis=1)
                inside = (want[None, :] >= lo[:, None]) & (want[None, :] <= hi[:, None]) & mono[:, None]
                if not numpy.isfinite(a[inside]).all():
                    self.verdict("O-inv", "C12", client, i, f"pressure-base {name} not finite at bracketed (T,P) points", sig="tp-nonfinite", config=self._cfg_summary(h.world))
                self.probe("inv_tp_checked")

    # -- O-round (C17) on calculator inputs ---------------------------------------
    def _check_round_calc(self, client, i, h):
        from . import oracles_io
        oracles_io.check_qha_input(self, client, i, h.calc.qha_input, h.world["phonon"], "calc.qha_input", rel=4e-16)
        if h.world["settings"]["elast"]["settings"].get("symmetry", {}).get("system", "triclinic") == "triclinic":
            oracles_io.check_elast_data(self, client, i, h.calc.elast_data, h.world["static"], "calc.elast_data")


READ_ONLY_OPS = {"calc.read", "calc.new", "cli.extract", "cli.geotherm", "io.read_energy", "io.read_elast",
                 "fill.call", "cli.fill", "cli.refill", "cli.static", "env.mutate_config", "env.chdir", "env.clutter", "calc.drop", "calc.edge"}


# ---------------------------------------------------------------------------
# line-level tracer: cancellation / allocation failure, baton passing
# ---------------------------------------------------------------------------

class Baton:
    """Only the holder runs.  The switch list says: after n line events of the holder hand over
    to the other thread.  Real threads, but who runs is decided here, from the scenario."""

    def __init__(self, runner, names, switches):
        self.runner = runner
        self.names = list(names)
        self.switches = [x for x in switches if not isinstance(x, list)]
        self.aims = [[x[0], x[1], x[2], 0] + list(x[3:4]) for x in switches if isinstance(x, list)]
        self.back = None
        self.pp_limit = 6000
        self.events = {n: threading.Event() for n in names}
        self.finished = set()
        self.count = 0
        self.n_switches = 0
        self.current = None

    def start(self):
        self.current = self.names[0]
        self.events[self.current].set()

    def wait_turn(self, me):
        if not self.events[me].wait(100):
            raise RuntimeError("baton never arrived")
        self.events[me].clear()

    def other(self, me):
        for n in self.names:
            if n != me and n not in self.finished:
                return n
        return None

    def maybe_switch(self, tracer, frame=None):
        if not self.switches and not self.aims and self.back is None:
            return
        hit = False
        pingpong = None
        me = tracer.me
        if self.back is not None and frame is not None:
            # ping-pong: the thread that was switched away from waits inside function F; the running thread hands the baton back once it
            # is m lines into the SAME function (both threads inside one function at once), or after 4000 lines without getting there
            bk = self.back
            bk[4] += 1
            if frame.f_code is bk[0] or (frame.f_code.co_name == bk[0].co_name and frame.f_code.co_filename == bk[0].co_filename):
                bk[2] += 1
                if bk[2] >= bk[1]:
                    self.back = None
                    self.runner.probe("pingpong_both_in_same_function")
                    hit = True
            if not hit and bk[4] > self.pp_limit:
                self.back = None
        if not hit and self.aims and frame is not None:
            # aimed switch points are watchpoints, all armed at once: the n-th line the running thread executes inside the named function
            name, fn = frame.f_code.co_name, frame.f_code.co_filename
            for a in self.aims:
                if a[1] == name and fn.endswith(a[0]):
                    a[3] += 1
                    if a[3] >= int(a[2]):
                        self.aims.remove(a)
                        self.runner.probe("aimed_switch_hit")
                        hit = True
                        pingpong = a[4] if len(a) > 4 else None
                        break
        self.count += 1
        if not hit:
            if not self.switches or self.count < abs(self.switches[0]):
                return
            head = self.switches.pop(0)
            if head < 0:
                pingpong = 1 + (abs(head) % 7)       # a negative count marks a ping-pong switch point; m is derived from it
        n = self.count
        self.count = 0
        o = self.other(me)
        if o is None:
            return
        self.n_switches += 1
        if frame is not None:
            site = f"{frame.f_code.co_filename[len(REPO_CIJ):]}:{frame.f_code.co_name}"
            ss = self.runner.stats.setdefault("switch_sites", {})
            ss[site] = ss.get(site, 0) + 1
            if pingpong:
                self.back = [frame.f_code, int(pingpong), 0, me, 0]
        self.runner.seams.log("switch", me, o, n)
        self.current = o
        self.events[o].set()
        self.wait_turn(me)

    def finish(self, me):
        self.finished.add(me)
        o = self.other(me)
        if o is not None:
            self.current = o
            self.events[o].set()


class LineTracer:
    """Counts `line` events of frames whose code lives under /repo/cij in the current
    thread; raises the planned fault at the k-th; hands the baton at switch points."""

    def __init__(self, runner, fault=None, who=None, baton=None, me=None):
        self.runner = runner
        self.steps = 0
        self.fault = None
        self.fault_site = None
        self.fired_in = None
        self.baton = baton
        self.me = me
        self.sites = None
        if fault is not None:
            self.arm_fault(fault, who)

    def arm_fault(self, fault, who):
        self.fault = dict(fault)
        self.fault_who = who
        self.fault_at = self.steps + int(fault["line"])
        self.func_lines = 0     # for faults aimed at a function: line events seen inside that function so far

    def global_trace(self, frame, event, arg):
        if frame.f_code.co_filename.startswith(REPO_CIJ):
            return self.local_trace
        return None

    def local_trace(self, frame, event, arg):
        if event != "line":
            return self.local_trace
        self.steps += 1
        if self.sites is not None:      # profiling for the fault sweep: at which step is each source line executed (first few occurrences)
            key = f"{frame.f_code.co_filename[len(REPO_CIJ):]}:{frame.f_lineno}"
            ent = self.sites.get(key)
            if ent is None:
                self.sites[key] = [[self.steps], 1]
            else:
                ent[1] += 1
                if len(ent[0]) < 6:
                    ent[0].append(self.steps)
        if self.fault is not None and self.fault.get("func"):
            # aimed fault: fires at the n-th line event executed inside the named function (wherever in the operation that is)
            if frame.f_code.co_name == self.fault["func"][1] and frame.f_code.co_filename.endswith(self.fault["func"][0]):
                self.func_lines += 1
                hit = self.func_lines >= int(self.fault["line"])
            else:
                hit = False
        else:
            hit = self.fault is not None and self.steps >= self.fault_at
        if hit:
            f, self.fault = self.fault, None
            self.fired_in = self.fault_who
            self.fault_site = f"{frame.f_code.co_filename[len(REPO_CIJ):]}:{frame.f_code.co_name}"
            self.runner.seams.log("linefault", f["kind"], self.steps, self.fault_site)
            if f["kind"] == "cancel":
                raise S.SimCancelled()
            raise MemoryError("injected allocation failure")
        if self.baton is not None:
            self.baton.maybe_switch(self, frame)
        return self.local_trace
