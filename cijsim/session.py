"""Scenario generation: one PRNG, everything decided before execution.

gen_scenario(prop, seed, tier) is a pure function of its arguments (no set / dict-order /
hash dependence), so one integer is one scenario and, with the code under /repo and the
hash seeds written into it, one execution.
"""
import hashlib
import json
import random

from . import world as W

SYSTEM_NAMES = list(W.SYSTEMS)
GOOD_METHODS = ["lsq_poly", "lsq_poly", "spline", "spline", "lagrange", "krogh", "pchip"]

AVG_NAMES = ["bulk_modulus_voigt", "bulk_modulus_reuss", "bulk_modulus_voigt_reuss_hill",
             "shear_modulus_voigt", "shear_modulus_reuss", "shear_modulus_voigt_reuss_hill",
             "primary_velocities", "secondary_velocities"]
CALC_NAMES = ["static_p_array", "freq_array", "mode_gamma0", "mode_gamma1", "mode_gamma2", "config",
              "modulus_keys", "qha_input", "elast_data", "v_array", "t_array"]

# every documented interpolator; the two with open known findings (hermite, akima) get a smaller share
C12_METHODS = ["lsq_poly"] * 3 + ["spline"] * 3 + ["lagrange"] * 3 + ["krogh"] * 3 + ["pchip"] * 3 + ["hermite", "akima"]

HASH_SEEDS = {"quick": [0, 1, 2718281, 31337], "thorough": [0, 1, 2718281, 31337, 4242424242, 99]}


def scenario_digest(sc):
    return hashlib.sha256(json.dumps(sc, sort_keys=True, separators=(",", ":")).encode()).hexdigest()


def expected_keys(world):
    system = world["settings"]["elast"]["settings"].get("symmetry", {}).get("system", "triclinic")
    if system == "triclinic":
        return list(world["static"]["keys"])
    return W.nonzero_keys(system)


def read_pool(world):
    keys = expected_keys(world)
    pool = []
    for b in ("tv", "tp"):
        for k in keys:
            pool.append((b, f"modulus_adiabatic:{k}"))
            pool.append((b, f"modulus_isothermal:{k}"))
        for n in AVG_NAMES:
            pool.append((b, n))
        for k in keys[:4]:
            pool.append((b, f"c{k}"))
            pool.append((b, f"c{k}s"))
            pool.append((b, f"c{k}t"))
        pool.append((b, "s11"))
        pool.append((b, "s44"))
        pool.append((b, "t_array"))
    pool += [("tv", "pressures"), ("tv", "v_array"), ("tp", "volumes"), ("tp", "p_array")]
    pool += [("calc", n) for n in CALC_NAMES]
    return pool


def gen_var_list(rng, base_name):
    base = "tp" if base_name == "pressure_base" else "tv"
    rules = [r for r in W.rules()["rules"] if base in r["bases"]]
    n = rng.randint(1, 4)
    out = []
    for r in rng.sample(rules, min(n, len(rules))):
        kw = rng.choice(r["keywords"])
        if rng.random() < 0.15:
            out.append({"keyword": kw, "unit": rng.choice(W.UNIT_OVERRIDES[r["internal"]])})
        else:
            out.append(kw)
        if rng.random() < 0.12:
            # the same quantity once more in the same list, under an alias, with or without a unit override: the later entry decides the file
            kw2 = rng.choice(r["keywords"])
            out.append({"keyword": kw2, "unit": rng.choice(W.UNIT_OVERRIDES[r["internal"]])} if rng.random() < 0.6 else kw2)
    return out


# ---------------------------------------------------------------------------
# clutter
# ---------------------------------------------------------------------------

VALID_OTHER_RELATIONS = "c11 = c22 = c33\nc12 = c13 = c23\nc44 = c55 = c66\n"


def gen_clutter(rng, worlds, shadow_bias=0.6):
    out = []
    for name, w in worlds.items():
        dirs = [w["cwd"]] + ([w["datadir"]] if w["datadir"] != w["cwd"] else [])
        for d in dirs:
            for _ in range(rng.randint(0, 3)):
                kind = rng.choice(["notes.txt", ".hidden", "results", "__pycache__", "README", "plot.png", "a_tp_b"])
                if kind in ("results", "__pycache__"):
                    out.append({"dir": d, "name": kind, "kind": "dir", "children": [{"name": "old.txt", "text": "x\n"}]})
                elif kind == "a_tp_b":
                    out.append({"dir": d, "name": "zz_notes_tp.bak", "kind": "file", "text": "not a table\n"})
                else:
                    out.append({"dir": d, "name": kind, "kind": "file", "text": "unrelated\n"})
        if rng.random() < shadow_bias:
            system = w["static"]["system"]
            cwd = w["cwd"]
            choice = rng.choice(["sysdir", "sysfile_garbage", "sysfile_valid", "sysfile_empty", "constraints", "othersys", "default", "schema", "output", "inputs", "sysdir"])
            if choice == "sysdir":
                out.append({"dir": cwd, "name": system, "kind": "dir", "children": [{"name": "POSCAR", "text": "x\n"}]})
            elif choice == "sysfile_garbage":
                out.append({"dir": cwd, "name": system, "kind": "file", "text": "this is not = a relation file ((\n"})
            elif choice == "sysfile_valid":
                out.append({"dir": cwd, "name": system, "kind": "file", "text": VALID_OTHER_RELATIONS})
            elif choice == "sysfile_empty":
                out.append({"dir": cwd, "name": system, "kind": "file", "text": ""})      # as a relations file it would impose nothing at all
            elif choice == "constraints":
                out.append({"dir": cwd, "name": "constraints", "kind": "dir", "children": [{"name": system, "text": VALID_OTHER_RELATIONS}]})
            elif choice == "othersys":
                for s in rng.sample(SYSTEM_NAMES, 3):
                    if s != system:
                        out.append({"dir": cwd, "name": s, "kind": "dir"})
            elif choice == "default":
                out.append({"dir": cwd, "name": "default", "kind": "dir", "children": [{"name": "settings.yaml", "text": "qha:\n  settings:\n    NT: 3\n"}]})
            elif choice == "schema":
                out.append({"dir": cwd, "name": "schema", "kind": "dir", "children": [{"name": "config.schema.json", "text": "{\"type\": \"string\"}"}]})
            elif choice == "output":
                out.append({"dir": cwd, "name": "output", "kind": "dir", "children": [{"name": "writer_rules.yml", "text": "[]\n"}]})
            elif choice == "inputs" and w["datadir"] != cwd:
                for fn in ("settings.yaml", "input01", "elast.dat", w["settings"]["qha"]["input"], w["settings"]["elast"]["input"]):
                    out.append({"dir": cwd, "name": fn, "kind": "file", "text": "garbage in the cwd, the real one lives in the data directory\n"})
    # unique (dir,name)
    seen, uniq = [], []
    for c in out:
        k = (c["dir"], c["name"])
        if k not in seen:
            seen.append(k)
            uniq.append(c)
    return uniq


# ---------------------------------------------------------------------------
# programs
# ---------------------------------------------------------------------------

def _calc_new(h, rng, expect_ok=True):
    return {"op": "calc.new", "h": h, "abs": rng.random() < 0.6, "expect_ok": expect_ok}


def gen_mid_clutter(rng, world):
    """entries that appear in the working directory in the middle of a history (env.clutter)"""
    system = world["static"]["system"]
    out = []
    for _ in range(rng.randint(1, 2)):
        k = rng.choice(["sysdir", "sysfile_valid", "sysfile_garbage", "constraints", "notes", "results", "default", "inputs", "othersys"])
        if k == "sysdir":
            out.append({"name": system, "kind": "dir", "children": [{"name": "POSCAR", "text": "x\n"}]})
        elif k == "sysfile_valid":
            out.append({"name": system, "kind": "file", "text": VALID_OTHER_RELATIONS})
        elif k == "sysfile_garbage":
            out.append({"name": system, "kind": "file", "text": "this is not = a relation file ((\n"})
        elif k == "constraints":
            out.append({"name": "constraints", "kind": "dir", "children": [{"name": system, "text": VALID_OTHER_RELATIONS}]})
        elif k == "notes":
            out.append({"name": rng.choice(["notes.txt", ".hidden", "README", "zz_notes_tp.bak"]), "kind": "file", "text": "unrelated\n"})
        elif k == "results":
            out.append({"name": rng.choice(["results", "__pycache__", "data"]), "kind": "dir", "children": [{"name": "old.txt", "text": "x\n"}]})
        elif k == "default":
            out.append({"name": "default", "kind": "dir", "children": [{"name": "settings.yaml", "text": "qha:\n  settings:\n    NT: 3\n"}]})
        elif k == "inputs" and world["datadir"] != world["cwd"]:
            for fn in (world["settings_name"], world["settings"]["qha"]["input"], world["settings"]["elast"]["input"]):
                out.append({"name": fn, "kind": "file", "text": "garbage in the cwd, the real one lives in the data directory\n"})
        elif k == "othersys":
            out.append({"name": rng.choice([x for x in SYSTEM_NAMES if x != system]), "kind": "dir"})
    seen, uniq = [], []
    for c in out:
        if c["name"] not in seen:
            seen.append(c["name"])
            uniq.append(c)
    return uniq


def gen_program(rng, prop, name, world, tier, no_chdir=False):
    big = tier == "thorough"
    h0 = name.lower() + "0"
    prog = []
    valid = world["valid"]
    pool = read_pool(world)
    if prop == "C12":
        prog.append(_calc_new(h0, rng, valid))
        if rng.random() < 0.4:
            prog[-1]["inv_light"] = True      # the monitor looks at the moduli only: averages / velocities are first touched by the client's own reads
        for _ in range(rng.randint(1, 4)):
            b, n = rng.choice([p for p in pool if p[0] != "calc"])
            prog.append({"op": "calc.read", "h": h0, "base": b, "name": n})
        if rng.random() < 0.2:
            # the command-line entry point with an explicit log level, as history before (or after) the library calls
            prog.insert(rng.randrange(len(prog) + 1), {"op": "cli.run", "abs": rng.random() < 0.6, "expect_ok": valid,
                                                      "debug": rng.choice(["DEBUG", "DEBUG", "INFO", "WARNING", "ERROR"])})
        if valid and rng.random() < 0.2:
            # the same calculation with the pressure grid stretched to the edge of the computed range (last pressure a fraction u of one step below the top)
            prog.append({"op": "calc.edge", "h": name.lower() + "e", "u": round(rng.uniform(0.03, 0.97), 3), "expect_ok": True})
        if rng.random() < 0.25:
            prog.append(_calc_new(name.lower() + "1", rng, valid))
        return prog
    if prop in ("C14", "C15", "C19"):
        n_ops = rng.randint(3, 12 if big else 9)
        prog.append(_calc_new(h0, rng, valid))
        handles = [h0]
        w_ops = {"C14": {"read": 5, "write": 2, "writevars": 2, "run": 1, "new": 1, "mutate": 1, "fill": 1, "io": 1, "static": 1, "chdir": 1, "clutter": 1, "drop": 1},
                 "C15": {"read": 1, "write": 4, "writevars": 4, "run": 2, "new": 1, "mutate": 1, "fill": 0, "chdir": 1, "drop": 1},
                 "C19": {"read": 0, "write": 3, "writevars": 3, "run": 1, "new": 0, "mutate": 0, "fill": 0, "chdir": 1, "clutter": 1}}[prop]
        kinds = [k for k, wgt in w_ops.items() for _ in range(wgt)]
        recent_reads = []
        dirs = [world["cwd"]]
        cur_dir = world["cwd"]
        for _ in range(n_ops):
            k = rng.choice(kinds)
            if k == "chdir":
                if no_chdir:
                    continue
                r = rng.random()
                if r < 0.45 or len(dirs) == 1:
                    to = rng.choice([f"{world['cwd']}/sub{len(dirs)}", f"w{name.lower()}_alt{len(dirs)}", f"{world['cwd']}/out/run{len(dirs)}"])
                    dirs.append(to)
                else:
                    to = rng.choice(dirs)
                prog.append({"op": "env.chdir", "to": to})
                cur_dir = to
                continue
            if k == "clutter":
                prog.append({"op": "env.clutter", "entries": gen_mid_clutter(rng, world)})
                continue
            if k == "drop":
                if len(handles) > 1 or rng.random() < 0.5:
                    hd = rng.choice(handles)
                    handles.remove(hd)
                    prog.append({"op": "calc.drop", "h": hd})
                    if not handles:
                        hn = name.lower() + "n" + str(len(prog))
                        handles.append(hn)
                        prog.append(_calc_new(hn, rng, valid))
                continue
            h = rng.choice(handles)
            if k == "read":
                if recent_reads and rng.random() < 0.3:
                    b, n = rng.choice(recent_reads)
                else:
                    b, n = rng.choice(pool)
                    recent_reads.append((b, n))
                prog.append({"op": "calc.read", "h": h, "base": b, "name": n})
            elif k == "write":
                prog.append({"op": "calc.write", "h": h, "vars": None, "expect_ok": valid})
            elif k == "writevars":
                if rng.random() < 0.12:
                    lst = [e for e in gen_var_list(rng, "pressure_base") if (e if isinstance(e, str) else e["keyword"]) not in ("v", "V", "volume", "volumes")]
                    both_kw = {kw for r in W.rules()["rules"] if "tp" in r["bases"] and "tv" in r["bases"] for kw in r["keywords"]}
                    lst = [e for e in lst if (e if isinstance(e, str) else e["keyword"]) in both_kw]
                    if lst:
                        prog.append({"op": "calc.write", "h": h, "vars": {"base": "both", "list": lst}, "expect_ok": valid})
                        continue
                base = rng.choice(["pressure_base", "volume_base"])
                prog.append({"op": "calc.write", "h": h, "vars": {"base": base, "list": gen_var_list(rng, base)}, "expect_ok": valid})
            elif k == "run":
                prog.append({"op": "cli.run", "abs": rng.random() < 0.6, "expect_ok": valid})
                if rng.random() < 0.25:
                    prog[-1]["debug"] = rng.choice(["DEBUG", "DEBUG", "INFO", "WARNING", "ERROR", "CRITICAL"])
            elif k == "new":
                hn = name.lower() + "h" + str(len(prog))
                handles.append(hn)
                prog.append(_calc_new(hn, rng, valid))
                if recent_reads and rng.random() < 0.6:      # the same calculation again in the same process: must agree with the first
                    b, n = rng.choice(recent_reads)
                    prog.append({"op": "calc.read", "h": hn, "base": b, "name": n})
            elif k == "mutate":
                r = rng.random()
                if r < 0.5:
                    base = rng.choice(["pressure_base", "volume_base"])
                    rules = [x for x in W.rules()["rules"] if ("tp" if base == "pressure_base" else "tv") in x["bases"]]
                    prog.append({"op": "env.mutate_config", "h": h, "what": "append_output", "base": base,
                                 "entry": rng.choice(rng.choice(rules)["keywords"])})
                elif r < 0.8:
                    prog.append({"op": "env.mutate_config", "h": h, "what": "set_symmetry", "key": "drop_atol", "value": 1.0e-3})
                else:
                    prog.append({"op": "env.mutate_config", "h": h, "what": "clear_output_base", "base": rng.choice(["pressure_base", "volume_base"])})
            elif k == "io":
                r = rng.random()
                if r < 0.3:
                    prog.append({"op": "io.read_energy", "path": None, "abs": True})
                elif r < 0.6:
                    prog.append({"op": "io.read_elast", "abs": True})
                else:
                    p = f"we_{name.lower()}{len(prog)}.dat"
                    prog.append({"op": "io.write_energy", "path": p, "data": gen_energy_data(rng, tier, small=True), "abs": True, "comment": None})
                    prog.append({"op": "io.read_energy", "path": p, "abs": True})
            elif k == "static":
                prog.append({"op": "cli.static", "mode": rng.choice(["none", "volume", "pressure"]), "with_table": rng.random() < 0.5,
                             "system": rng.choice([None, world["static"]["system"]])})
            elif k == "fill":
                prog.append({"op": "cli.fill", "system": world["static"]["system"], "store": "f0", "flags": [],
                             "expect_ok": world["static"]["cli_ok"]})
                if rng.random() < 0.6:
                    prog.append({"op": "cli.refill", "system": world["static"]["system"], "src": "f0", "store": "f1", "flags": [],
                                 "expect_ok": world["static"]["cli_ok"]})
        if prop == "C19":
            # some requests in the middle of the write history (read-your-writes while the history goes on), the rest at the end
            base_prog, prog = prog, []
            for op in base_prog:
                prog.append(op)
                if op["op"] in ("calc.write", "cli.run") and rng.random() < 0.3:
                    prog += gen_extract_ops(rng, name, world, tier, prog, 1, 2)
            if cur_dir != world["cwd"] and rng.random() < 0.5:
                prog.append({"op": "env.chdir", "to": world["cwd"]})     # back home, where the earlier tables (and the stub tables) are
                prog += gen_extract_ops(rng, name, world, tier, [o for o in prog if o["op"] != "env.chdir"])
            else:
                prog += gen_extract_ops(rng, name, world, tier, prog)
        elif prop == "C14" and rng.random() < 0.4:
            prog += gen_extract_ops(rng, name, world, tier, prog)[:2]
        return prog
    if prop == "C17":
        return gen_program_c17(rng, name, world, tier)
    if prop == "C09":
        return gen_program_c09(rng, name, world, tier)
    raise ValueError(prop)


def _rand_val(rng, lo=1e-3, hi=1e5, signed=True):
    import math
    x = math.exp(rng.uniform(math.log(lo), math.log(hi)))
    if signed and rng.random() < 0.4:
        x = -x
    return float(f"{x:.9g}")


def gen_energy_data(rng, tier, small=False, shape=None, narrow=False):
    """an arbitrary phonon data set for write_energy (C17): counts 1-12 / 1-10 / 3-60, either sign, up to 1e5"""
    nv = rng.randint(1, 4 if small else 12)
    nq = rng.randint(1, 3 if small else 10)
    np_ = rng.randint(3, 9 if small else 60)
    if shape is not None:
        nv, nq, np_ = shape
    if narrow:      # every value fits the writer's 12-character field: two data sets of one shape then give files of exactly the same size
        import functools
        rv = functools.partial(_rand_val, hi=9.0e3)
        return {"nv": nv, "nq": nq, "np": np_, "nm": rng.randint(1, 9), "na": rng.randint(1, 20), "narrow": True,
                "pressures": [rv(rng) for _ in range(nv)], "volumes": [rv(rng) for _ in range(nv)], "energies": [rv(rng) for _ in range(nv)],
                "qcoords": [[round(rng.uniform(-1, 1), 4) for _ in range(3)] for _ in range(nq)],
                "weights": [_rand_val(rng, 1e-2, 1e3) for _ in range(nq)],
                "freqs": [[[(rv(rng, 1e-2) if rng.random() < 0.9 else 0.0) for _ in range(np_)] for _ in range(nq)] for _ in range(nv)]}
    d = {"nv": nv, "nq": nq, "np": np_, "nm": rng.randint(1, 9), "na": rng.randint(1, 20),
         "pressures": [_rand_val(rng) for _ in range(nv)], "volumes": [_rand_val(rng) for _ in range(nv)],
         "energies": [_rand_val(rng) for _ in range(nv)],
         "qcoords": [[round(rng.uniform(-1, 1), 4) for _ in range(3)] for _ in range(nq)],
         "weights": [_rand_val(rng, 1e-2, 1e3) for _ in range(nq)],
         "freqs": [[[(_rand_val(rng, 1e-2, 1e5) if rng.random() < 0.9 else 0.0) for _ in range(np_)] for _ in range(nq)] for _ in range(nv)]}
    return d


def gen_program_c17(rng, name, world, tier):
    prog = []
    n = rng.randint(4, 10)
    paths = []
    last = {}
    h0 = name.lower() + "0"
    for _ in range(n):
        r = rng.random()
        if r < 0.15:
            prog.append({"op": "io.read_energy", "path": None, "abs": rng.random() < 0.5, "expect_ok": True})
        elif r < 0.3:
            prog.append({"op": "io.read_elast", "abs": rng.random() < 0.5, "expect_ok": True})
        elif r < 0.4:
            prog.append(_calc_new(h0, rng, world["valid"]))
            prog.append({"op": "calc.read", "h": h0, "base": "calc", "name": rng.choice(["qha_input", "elast_data"])})
        elif r < 0.65:
            if paths and rng.random() < 0.4:
                p = rng.choice(paths)      # overwrite an existing file: often with a smaller data set, or with other values of the same shape
                comment = rng.choice([None, "written by the simulator", "QHA data 1 2 3"])
                if rng.random() < 0.45:    # (the fixed-width writer then produces a file of exactly the same size)
                    d = gen_energy_data(rng, tier, shape=(last[p]["nv"], last[p]["nq"], last[p]["np"]), narrow=bool(last[p].get("narrow")))
                    comment = last[p].get("_comment")
                else:
                    d = gen_energy_data(rng, tier, small=rng.random() < 0.6)
            else:
                p = f"we_{name.lower()}{len(paths)}.dat"
                paths.append(p)
                d = gen_energy_data(rng, tier, small=rng.random() < 0.3, narrow=rng.random() < 0.5)
                comment = rng.choice([None, "written by the simulator", "QHA data 1 2 3"])
            same_size_shape = bool(last.get(p)) and d.get("narrow") and last[p].get("narrow") and (last[p]["nv"], last[p]["nq"], last[p]["np"]) == (d["nv"], d["nq"], d["np"])
            last[p] = dict(d, _comment=comment)
            if same_size_shape and rng.random() < 0.6:
                # read, overwrite with other numbers of the same size within the same simulated second, read again
                prog.append({"op": "io.read_energy", "path": p, "abs": rng.random() < 0.5, "expect_ok": True})
                prog.append({"op": "io.write_energy", "path": p, "data": d, "abs": rng.random() < 0.5, "comment": comment, "expect_ok": True, "notick": True})
                prog.append({"op": "io.read_energy", "path": p, "abs": rng.random() < 0.5, "expect_ok": True, "notick": True})
                continue
            prog.append({"op": "io.write_energy", "path": p, "data": d, "abs": rng.random() < 0.5,
                         "comment": comment, "expect_ok": True})
            if rng.random() < 0.5:        # write, read back, overwrite, read back: the shape in which a stale copy of the first version can be served
                prog.append({"op": "io.read_energy", "path": p, "abs": rng.random() < 0.5, "expect_ok": True})
        elif r < 0.85 and paths:
            prog.append({"op": "io.read_energy", "path": rng.choice(paths), "abs": rng.random() < 0.5, "expect_ok": True})
        elif world["static"].get("cli_ok", True):
            prog.append({"op": "cli.fill", "system": world["static"]["system"], "store": "f%d" % len(prog), "flags": [],
                         "abs": rng.random() < 0.5, "expect_ok": True})
        else:
            prog.append({"op": "io.read_elast", "abs": rng.random() < 0.5, "expect_ok": True})
    return prog


def gen_program_c09(rng, name, world, tier):
    st = world["static"]
    system = st["system"]
    ncol = len(st["names"])
    prog = []
    flags = {}
    if rng.random() < 0.2:
        flags = {"drop_atol": 1e-8}
    canon = {"extra_col": rng.choice([None, "V", "tail"])}
    prog.append({"op": "fill.call", "target": system, "present": dict(canon), "flags": flags, "expect_ok": True})
    ref = 0
    variants = rng.sample(["perm", "upper", "int", "path", "abspath", "nopath", "cli", "calc", "again", "norank", "noresid", "wrongsys", "wrongsys", "index", "offset"], rng.randint(3, 8))
    for v in variants:
        pres = dict(canon)
        if v == "norank" and system != "triclinic":
            # clear-cut under-determination: every member of one relation class is missing
            grp = rng.choice(W.GROUPS[system])
            pres["drop_keys"] = list(grp)
            prog.append({"op": "fill.call", "target": system, "present": pres, "flags": flags, "must_refuse": "rank"})
            prog.append({"op": "fill.call", "target": system, "present": dict(pres), "flags": dict(flags, ignore_rank=True), "must_not_refuse": "rank"})
        elif v == "noresid" and system != "triclinic":
            # clear-cut inconsistency: two supplied members of one relation class disagree by 5 GPa or more
            cands = [g for g in W.GROUPS[system] if len([k for k in g if k in st["keys"]]) >= 2]
            if cands:
                g = rng.choice(cands)
                k = rng.choice([x for x in g if x in st["keys"]])
                pres["perturb"] = {k: rng.choice([-1, 1]) * rng.choice([5.0, 12.0, 40.0])}
                prog.append({"op": "fill.call", "target": system, "present": pres, "flags": flags, "must_refuse": "residual"})
                prog.append({"op": "fill.call", "target": system, "present": dict(pres), "flags": dict(flags, ignore_residuals=True), "must_not_refuse": "residual"})
        elif v == "wrongsys":
            # a call with another crystal system (accepted or refused, whichever), after which the caller re-uses the SAME table object
            # with the right system: a refused call must have left the table untouched
            other = rng.choice([x for x in SYSTEM_NAMES if x not in (system, "triclinic")])
            fid = "t%d" % len(prog)
            prog.append({"op": "fill.call", "target": other, "present": dict(canon), "flags": flags, "keep_frame": fid})
            prog.append({"op": "fill.call", "target": system, "present": dict(canon), "flags": flags, "use_frame": fid, "ref": ref,
                         "ref_what": "the same table object after a call with another crystal system that was refused", "expect_ok": True})
        elif v == "index":
            pres["index"] = rng.choice(["shift", "volumes", "labels", "reversed"])
            prog.append({"op": "fill.call", "target": system, "present": pres, "flags": flags, "ref": ref, "ref_what": "row index of the table (not 0..N-1)", "expect_ok": True})
        elif v == "offset" and system != "triclinic":
            # a user-written relations file that is the system's, except that ONE plain equality a = b carries a constant term: a = b + d
            pairs = [(ch[0][1:], ch[1][1:]) for ch in W._CHAINS[system] if len(ch) >= 2 and all(len(x) == 3 and x[0] == "c" for x in ch[:2])]
            if system in W.TRIPLE:      # c11 also enters c66 = (c11 - c12) / 2 there: shifting it would contradict a supplied c66
                pairs = [p_ for p_ in pairs if "11" not in p_]
            if pairs:
                a, b = rng.choice(pairs)
                d = rng.choice([30.0, -12.5, 7.0])
                rel = f"{world['cwd']}/offset_relations_{name.lower()}{len(prog)}.txt"
                pres["offset"] = [a, b, d]
                prog.append({"op": "fill.call", "target": {"relpath": rel, "abs": rng.random() < 0.5, "offset": [a, b, d]}, "present": pres, "flags": flags, "expect_ok": True})
        elif v == "perm":
            perm = list(range(ncol))
            rng.shuffle(perm)
            pres["perm"] = perm
            prog.append({"op": "fill.call", "target": system, "present": pres, "flags": flags, "ref": ref, "ref_what": "columns reordered", "expect_ok": True})
        elif v == "upper":
            pres["upper" if st["names"][0][0] == "c" else "lower"] = True
            prog.append({"op": "fill.call", "target": system, "present": pres, "flags": flags, "ref": ref, "ref_what": "letter case of the column names", "expect_ok": True})
        elif v == "int" and st["integer"]:
            pres["int"] = True
            prog.append({"op": "fill.call", "target": system, "present": pres, "flags": flags, "ref": ref, "ref_what": "integer-typed columns", "expect_ok": True})
        elif v in ("path", "abspath") and system != "triclinic":
            prog.append({"op": "fill.call", "target": {"relpath": f"{world['cwd']}/{rng.choice(['relations', 'my_relations'])}_{name.lower()}.txt", "abs": v == "abspath"},
                         "present": pres, "flags": flags, "ref": ref, "ref_what": "user-written relations file equivalent to the packaged ones", "expect_ok": True})
        elif v == "nopath":
            prog.append({"op": "fill.call", "target": {"relpath": f"{world['cwd']}/no_such_rel_{name.lower()}.txt", "abs": rng.random() < 0.5},
                         "present": pres, "flags": flags, "expect_fail": True})
        elif v == "cli":
            prog.append({"op": "cli.fill", "system": system, "store": "f%d" % len(prog), "flags": [], "abs": rng.random() < 0.5, "expect_ok": True,
                         "ref": ref, "ref_what": "the command line on the file versus the function on the same numbers", "printed": True, "modulus_only": True})
            if st["integer"] and any(st["int_cols"]):
                prog.append({"op": "cli.fill", "system": system, "store": "f%d" % len(prog), "flags": [], "float_copy": True, "printed": True,
                             "ref": len(prog) - 1, "ref_what": "integer-looking versus float-looking columns in the file", "expect_ok": True})
        elif v == "calc":
            prog.append(_calc_new(name.lower() + str(len(prog)), rng, world["valid"]))
        elif v == "again":
            prog.append({"op": "fill.call", "target": system, "present": dict(canon), "flags": flags, "ref": ref, "ref_what": "the same call repeated", "expect_ok": True})
    return prog


def tp_variables(world, prog):
    """names (file-name prefix before _tp_) of the pressure-base tables this program will have written"""
    rules = {kw: r for r in W.rules()["rules"] for kw in r["keywords"]}
    out = []
    eff = W.effective_output(world)
    last_cd = max([k for k, o in enumerate(prog) if o["op"] == "env.chdir"] + [-1])
    for op in prog[last_cd + 1:]:
        entries = []
        if op["op"] in ("calc.write", "cli.run"):
            if op.get("vars") is None:
                entries = eff.get("pressure_base", [])
            elif op["vars"]["base"] in ("pressure_base", "both"):
                entries = op["vars"]["list"]
        elif op["op"] == "env.mutate_config" and op.get("what") == "append_output" and op.get("base") == "pressure_base":
            pass
        for e in entries:
            cfg = {"keyword": e} if isinstance(e, str) else e
            r = rules.get(cfg["keyword"])
            if r is None or "tp" not in r["bases"] or cfg.get("fname"):
                continue
            if r["kind"] == "value":
                out.append(r["pattern"].format(base="tp").split("_tp_")[0])
            else:
                for k in expected_keys(world):
                    out.append(r["pattern"].format(base="tp", ij=k).split("_tp_")[0])
    return list(dict.fromkeys(out))


def gen_extract_ops(rng, name, world, tier, prog, nmin=2, nmax=6):
    ops = []
    q = W.effective_qha(world)
    vars_real = tp_variables(world, prog)
    stubs = [s["var"] for s in world.get("stubs", [])]
    t_grid = [q["T_MIN"] + k * q["DT"] for k in range(q["NT"])]
    p_grid = [q["P_MIN"] + j * q["DELTA_P"] for j in range(q["NTV"])]
    for _ in range(rng.randint(nmin, nmax)):
        # variables of one request come from one family of tables (same grid); mixing grids is legal but
        # leaves nothing to check
        pool = stubs if (stubs and (not vars_real or rng.random() < 0.35)) else vars_real
        if rng.random() < 0.05:
            pool = vars_real + stubs
        if not pool:
            pool = ["c11s", "bm_VRH", "v"]
        nvar = rng.randint(1, min(6, len(pool)))
        variables = rng.sample(pool, nvar)
        if rng.random() < 0.1:
            variables.append(rng.choice(["c11s", "G_VRH", "nosuch"]))
        variables = list(dict.fromkeys(variables))
        use_stub_grid = all(v in stubs for v in variables) and stubs
        if use_stub_grid:
            sg = next(s for s in world["stubs"] if s["var"] == variables[0])
            tg, pg = sg["T"], sg["P"]
        else:
            tg, pg = t_grid, p_grid
        if rng.random() < 0.6:
            off = rng.choice([0.0, 0.0, 0.3, -0.2, 0.45])
            if rng.random() < 0.5:
                k = rng.randrange(len(tg))
                step = (tg[1] - tg[0]) if len(tg) > 1 else 1.0
                val = tg[k] + off * step
                if rng.random() < 0.1:
                    val = tg[0] - 0.7 * step if rng.random() < 0.5 else tg[-1] + 0.7 * step
                ops.append({"op": "cli.extract", "variables": variables, "T": round(val, 9), "P": None, "hide_header": rng.random() < 0.2})
            else:
                k = rng.randrange(len(pg))
                step = (pg[1] - pg[0]) if len(pg) > 1 else 1.0
                val = pg[k] + off * step
                if rng.random() < 0.1:
                    val = pg[0] - 0.7 * step if rng.random() < 0.5 else pg[-1] + 0.7 * step
                ops.append({"op": "cli.extract", "variables": variables, "T": None, "P": round(val, 9), "hide_header": rng.random() < 0.2})
        else:
            npts = rng.randint(1, 7)
            cols = rng.choice([["P", "T"], ["T", "P"], ["depth", "P", "T"], ["P", "T", "depth"]])
            pname, tname = "P", "T"
            if rng.random() < 0.25:     # the geotherm names its columns differently; the options name them (per the command's help text:
                pname, tname = rng.choice([["pressure", "temperature"], ["P(GPa)", "T(K)"], ["p", "t"]])    # --t-col = pressure column, --p-col = temperature column)
                cols = [{"P": pname, "T": tname}.get(c, c) for c in cols]
            pts = []
            on_nodes = rng.random() < 0.5
            for _k in range(npts):
                if on_nodes:
                    t, p = rng.choice(tg), rng.choice(pg)
                else:
                    t = tg[0] + rng.random() * (tg[-1] - tg[0])
                    p = pg[0] + rng.random() * (pg[-1] - pg[0])
                    t, p = round(t, 6), round(p, 6)
                row = []
                for cn in cols:
                    row.append({pname: p, tname: t}.get(cn, round(rng.uniform(0, 2900), 3)))
                pts.append(row)
            int_text = all(float(v) == int(v) for row in pts for v in row) and rng.random() < 0.6     # whole numbers written without a decimal point
            gname = f"geotherm_{name.lower()}{len(prog)}_{len(ops)}.txt"
            ops.append({"op": "cli.geotherm", "geotherm": gname, "columns": cols, "pname": pname, "tname": tname, "points": pts, "variables": variables, "int_text": int_text,
                        "hide_header": rng.random() < 0.15, "abs": rng.random() < 0.5})
    return ops


def gen_stub_tables(rng, name, world, n):
    """tables in the documented format whose content is a bicubic polynomial in (T, P): the interpolating
    bicubic spline reproduces such a table exactly everywhere, which gives an exact oracle off the nodes"""
    stubs = []
    for k in range(n):
        nt, npp = rng.randint(5, 9), rng.randint(6, 10)
        if rng.random() < 0.3:
            nt, npp = rng.randint(10, 18), rng.randint(11, 20)     # large enough for "far from both ends of the geotherm" to exist
        if rng.random() < 0.12:
            if rng.random() < 0.5:
                nt = rng.randint(61, 75)       # more rows (or columns) than any display limit of the table library
            else:
                npp = rng.randint(61, 70)
        t0, dt = rng.choice([0.0, 300.0]), rng.choice([50.0, 100.0, 12.5])
        p0, dp = rng.choice([0.0, 5.0]), rng.choice([1.0, 2.5, 10.0])
        T = [t0 + i * dt for i in range(nt)]
        P = [p0 + j * dp for j in range(npp)]
        poly = {"t0": T[0], "ts": T[-1] - T[0], "p0": P[0], "ps": P[-1] - P[0],
                "coef": [[round(rng.uniform(-50, 50) * (1.0 if a + b == 0 else 0.5), 6) for b in range(4)] for a in range(4)]}
        poly["coef"][0][0] += 300.0
        var = f"zq{name.lower()}{k}"
        stubs.append({"var": var, "fname": f"{var}_tp_stub.txt", "T": T, "P": P, "poly": poly})
    return stubs


def stub_table_text(stub):
    from .ops_io import eval_poly
    head = "T(K)\\P(GPa)" + "".join("%24s" % repr(float(p)) for p in stub["P"])
    lines = [head]
    for t in stub["T"]:
        lines.append("%-12s" % repr(float(t)) + "".join(" %.15e" % eval_poly(stub["poly"], t, p) for p in stub["P"]))
    return "\n".join(lines)


# functions in which in-flight state exists: a share of the line faults (cancel / alloc-fail) is aimed at them instead of at a uniformly drawn line
_F = {   # functions of the pinned tree with four or more lines, by file (one-off AST scan); a function a change adds is still reached by the uniformly drawn lines
    "core/calculator.py": ["__init__", "_load", "_apply_elastic_constants_symmetry", "_interpolate_modes", "_calculate_pressure_static", "_process_cij",
                           "_calculate_compliances", "__getattr__"],
    "core/calculator.py#w": ["write_output", "write_variables", "write_table", "v2p", "__getitem__", "items", "primary_velocities", "secondary_velocities",
                             "bulk_modulus_reuss", "shear_modulus_reuss", "modulus_adiabatic", "modulus_isothermal"],
    "core/full_modulus.py": ["fit_modulus", "get_static_modulus", "_get_init_strain", "get_axial_strains", "calculate_phonon_contribution", "modulus_adiabatic", "modulus_isothermal"],
    "core/mode_gamma.py": ["interpolate_modes", "interpolate_mode_lsq_poly", "interpolate_mode_spline", "interpolate_mode_ppoly", "interpolate_mode_lagrange", "interpolate_mode_krogh"],
    "core/phonon_contribution/nonshear.py": ["average_over_modes", "__init__", "prefactors", "Q", "Q1", "Q2", "zero_point_contribution", "thermal_contribution", "value_isothermal",
                                             "isothermal_to_adiabatic", "value_adiabatic"],
    "core/phonon_contribution/shear.py": ["calculate_fictitious_strain_energy", "get_fictitious_strain_energy_keys", "__init__", "fictitious_strain", "fictitious_strain_rotated", "transformation_matrix", "fictitious_strain_energy",
                                          "fictitious_strain_energy_rotated", "strain_rotated", "get_target_elastic_modulus"],
    "core/qha_adapter.py": ["__init__", "_load_qha_calculator", "read_input"],
    "core/tasks.py": ["resolve", "calculate", "get_modulus_isothermal", "get_modulus_adiabatic", "get_dependencies", "__setitem__", "__getitem__", "create"],
    "io/config/config.py": ["read_config", "update_config", "apply_default_config"],
    "io/config/validate.py": ["validate_config"],
    "io/traditional/elast_dat.py": ["read_elast_data", "apply_symetry_on_elast_data", "_find_modulus_key"],
    "io/traditional/qha_input.py": ["read_energy", "_read_volume_data", "_read_weights"],
    "io/traditional/qha_input.py#w": ["write_energy", "_yield_volume_data", "_yield_weights"],
    "io/output/results_writer.py": ["write_variable", "write_ij_variable", "write", "__init__", "_init_rules", "create"],
    "io/traditional/qha_output.py": ["save_x_tp", "save_x_tv", "save_x_pt"],
    "util/fill.py": ["fill_cij"],
    "util/units.py": ["convert_unit", "_to_gpa", "_to_ang3"],
    "data/__init__.py": ["get_data_fname"],
    "cli/fill.py": ["main"], "cli/extract.py": ["main", "load_data"], "cli/geotherm.py": ["main", "load_data", "fit_data"], "cli/main.py": ["main"],
}


def _aim(*files):
    return [(f.split("#")[0], fn) for f in files for fn in _F[f]]


AIM = {
    "calc.new": _aim("core/calculator.py", "core/full_modulus.py", "core/mode_gamma.py", "core/phonon_contribution/nonshear.py", "core/phonon_contribution/shear.py",
                     "core/qha_adapter.py", "core/tasks.py", "io/config/config.py", "io/config/validate.py", "io/traditional/elast_dat.py", "io/traditional/qha_input.py",
                     "util/fill.py", "data/__init__.py"),
    "calc.write": _aim("core/calculator.py#w", "io/output/results_writer.py", "io/traditional/qha_output.py", "util/units.py"),
    "calc.read": _aim("core/calculator.py#w", "util/units.py"),
    "cli.fill": _aim("util/fill.py", "cli/fill.py", "data/__init__.py"),
    "cli.extract": _aim("cli/extract.py"),
    "cli.geotherm": _aim("cli/geotherm.py"),
    "io.write_energy": _aim("io/traditional/qha_input.py#w"),
    "io.read_energy": _aim("io/traditional/qha_input.py"),
}
AIM["cli.run"] = AIM["calc.new"] + AIM["calc.write"] + _aim("cli/main.py")


ABANDONABLE = {"calc.read", "cli.extract", "cli.geotherm", "io.read_energy", "io.read_elast"}


def gen_faults(rng, programs, n):
    faults = []
    targets = [(c, i, op) for c, p in programs.items() for i, op in enumerate(p)
               if op["op"] in ("calc.new", "calc.write", "cli.run", "calc.read", "cli.fill", "io.write_energy", "io.read_energy", "cli.extract", "cli.geotherm")]
    if not targets:
        return faults
    per_op = {}
    all_kinds = ["open-fail", "read-fail", "cancel", "alloc-fail", "write-torn", "list-fail"]
    enabled = rng.sample(all_kinds, rng.randint(1, len(all_kinds)))      # swarm: each session enables its own subset of fault kinds
    for _ in range(n):
        biased = [t for t in targets if t[2]["op"] in ("calc.new", "calc.write", "cli.run")]
        c, i, op = rng.choice(biased if biased and rng.random() < 0.7 else targets)
        attempt = per_op.get((c, i), 0)
        per_op[(c, i)] = attempt + 1
        kinds = ["open-fail", "read-fail", "cancel", "alloc-fail"]
        if op["op"] in ("calc.write", "cli.run", "io.write_energy"):
            kinds += ["write-torn", "write-torn", "write-torn"]
        if op["op"] in ("cli.extract", "cli.geotherm"):
            kinds += ["list-fail", "list-fail"]
        kinds = [k for k in kinds if k in enabled] or kinds
        kind = rng.choice(kinds)
        f = {"client": c, "op": i, "attempt": attempt, "kind": kind}
        if kind in ("open-fail", "read-fail"):
            f["io_seq"] = rng.randint(1, 6 if op["op"] in ("calc.new", "cli.run") else 2)
            f["errno"] = rng.choice(["EIO", "EMFILE", "EACCES"])
            f["after"] = rng.randint(1, 3)
        elif kind == "write-torn":
            lo = 7 if op["op"] == "cli.run" else 1
            f["io_seq"] = rng.randint(lo, lo + 5)
            f["keep"] = 1.0 if rng.random() < 0.15 else round(rng.random(), 3)    # 1.0: everything persisted, the failure is reported late (at flush/close)
        elif kind == "list-fail":
            f["errno"] = rng.choice(["EIO", "EMFILE", "EACCES"])
        else:
            hi = {"calc.new": 9000, "cli.run": 11000, "calc.write": 600, "calc.read": 60}.get(op["op"], 200)
            f["line"] = rng.randint(1, hi)
            if op["op"] in AIM and rng.random() < 0.4:
                f["func"] = list(rng.choice(AIM[op["op"]]))
                f["line"] = rng.choice([1, 1, 2, 3, 5, 8, 13, 30])
        faults.append(f)
    # after the LAST planned fault of a read-only operation the client may give the operation up instead of retrying it ("abandon"):
    # whatever the aborted attempt left behind then meets the client's NEXT, different request
    last = {}
    for f in faults:
        last[(f["client"], f["op"])] = f
    for (c, i), f in last.items():
        if programs[c][i]["op"] in ABANDONABLE and rng.random() < 0.35:
            f["abandon"] = True
    return faults


def derive_world(rng, tier, base, name, methods):
    """a second client's world derived from the first one's: the same user re-running a calculation with modified
    settings (same data), or with other frequencies on the same volumes -- grids and array shapes stay (mostly) equal"""
    import copy
    import math
    w = copy.deepcopy(base)
    w["name"] = name
    same_dir = w["datadir"] == w["cwd"]
    w["cwd"] = "w" + name.lower()
    w["datadir"] = ("w" if same_dir else "d") + name.lower()
    kind = rng.choice(["settings", "settings", "freqs"])
    ph = w["phonon"]
    if kind == "freqs":
        for q in range(ph["nq"]):
            for m in range(ph["np"]):
                if q == 0 and m < 3:
                    continue
                w0 = math.exp(rng.uniform(math.log(30.0), math.log(1500.0)))
                g = rng.uniform(0.3, 2.5)
                b = rng.uniform(-0.3, 0.3)
                for iv, v in enumerate(ph["volumes"]):
                    x = math.log(v / ph["v0"])
                    ph["freqs"][iv][q][m] = W._sig(w0 * math.exp(-g * x + b * x * x))
    q = w["settings"]["qha"]["settings"]
    mg = w["settings"]["elast"]["settings"]["mode_gamma"]
    changed = kind == "freqs"
    if rng.random() < 0.6:
        q["T_MIN"] = rng.choice([50, 300]) if q.get("T_MIN", 0) == 0 else 0
        changed = True
    if rng.random() < 0.3:
        q["DT"] = rng.choice(W.DT_CHOICES)
        if "DT_SAMPLE" in q:
            q["DT_SAMPLE"] = q["DT"]
        changed = True
    if rng.random() < 0.5 or not changed:
        m = rng.choice(methods)
        mg["interpolator"] = m
        mg["order"] = rng.choice(W.admissible_orders(m, ph["nv"]))
        changed = True
    if rng.random() < 0.2:
        # only wider: the pressure grid was placed inside the range the base's ratio gives; a smaller ratio shrinks that range (the requested
        # pressures would leave it -- outside the property's precondition)
        cur = q.get("volume_ratio", 1.2)
        wider = [r for r in (1.15, 1.2, 1.25, 1.3) if r > cur]
        if wider:
            q["volume_ratio"] = rng.choice(wider)
    if rng.random() < 0.15:
        q["NT"] = rng.randint(4, 9)
    w["derived_from"] = base["name"]
    w["derived_kind"] = kind
    return w


SEG_ANY = {"calc.new", "calc.read", "calc.write", "cli.run", "cli.fill", "fill.call", "env.mutate_config"}
SEG_RO = {"calc.new", "calc.read", "cli.fill", "fill.call"}
SEG_EXTRACT = {"cli.extract", "cli.geotherm"}


def _seg_pair_ok(oa, ob):
    ka, kb = oa["op"], ob["op"]
    if (ka in SEG_ANY and kb in SEG_RO) or (kb in SEG_ANY and ka in SEG_RO):
        return True
    # two table readers (or a table reader next to a calculator being built or read): nothing is written, everything may interleave
    if (ka in SEG_EXTRACT and kb in SEG_EXTRACT | {"calc.read", "calc.new"}) or (kb in SEG_EXTRACT and ka in SEG_EXTRACT | {"calc.read", "calc.new"}):
        return True
    # two writers whose file sets are disjoint by construction: explicit variable lists on different bases (every default name carries its base)
    if ka == kb == "calc.write" and oa.get("vars") and ob.get("vars"):
        ba, bb = oa["vars"]["base"], ob["vars"]["base"]
        plain = all(isinstance(e, str) or not e.get("fname") for e in oa["vars"]["list"] + ob["vars"]["list"])
        return plain and "both" not in (ba, bb) and ba != bb
    return False


def add_segments(rng, schedule, programs):
    """replace some adjacent schedule entries (X, Y), X != Y, by a line-level segment in which the two
    operations run as baton-passing threads; at most one of the two may write files"""
    ptr = {c: 0 for c in programs}
    ops_at = []
    for c in schedule:
        ops_at.append((c, ptr[c]))
        ptr[c] += 1
    out, k, made = [], 0, 0
    while k < len(schedule):
        if k + 1 < len(schedule) and made < 3 and schedule[k] != schedule[k + 1] and rng.random() < 0.5:
            (a, ia), (b, ib) = ops_at[k], ops_at[k + 1]
            if _seg_pair_ok(programs[a][ia], programs[b][ib]):
                nsw = rng.choice([1, 2, 3, 5, 8, 13, 40])
                sw = [int(10 ** rng.uniform(0, 3.6)) for _ in range(nsw)]
                # ping-pong switch points (negative count): the other thread runs until it is a few lines into the very function the first one was
                # stopped in, then hands the baton back -- both threads inside one function at once, the situation in which shared scratch state bites
                sw = [(-x if rng.random() < 0.4 else x) for x in sw]
                # a share of the switch points is aimed: hand over at the n-th line the running thread executes inside a named function
                aims = AIM.get(programs[a][ia]["op"], []) + AIM.get(programs[b][ib]["op"], [])
                if aims:
                    for j in range(len(sw)):
                        if rng.random() < 0.35:
                            f = rng.choice(aims)
                            sw[j] = [f[0], f[1], rng.choice([1, 2, 2, 3, 4, 5, 8, 13])] + ([rng.randint(1, 7)] if rng.random() < 0.5 else [])
                out.append({"par": [a, b], "switches": sw})
                made += 1
                k += 2
                continue
        out.append(schedule[k])
        k += 1
    return out


def gen_scenario(prop, seed, tier, faults_enabled=None, nclients=None, segments_p=None):
    rng = random.Random(seed)
    big = tier == "thorough"
    if nclients is None:
        nclients = {"C12": rng.choice([1, 1, 2]), "C14": rng.choice([1, 2, 2, 2, 3]),
                    "C15": rng.choice([1, 2, 2]), "C19": rng.choice([1, 2]), "C17": rng.choice([1, 2, 2]),
                    "C09": rng.choice([1, 2, 2])}.get(prop, 1)
    names = ["A", "B", "C"][:nclients]
    worlds = {}
    for n in names:
        if n != "A" and prop in ("C12", "C14", "C15", "C19") and worlds["A"]["valid"] and rng.random() < 0.45:
            worlds[n] = derive_world(rng, tier, worlds["A"], n, C12_METHODS if prop == "C12" else GOOD_METHODS)
            continue
        kw = {}
        if prop == "C12":
            kw["method"] = rng.choice(C12_METHODS)
            kw["system"] = rng.choice(SYSTEM_NAMES)
            kw["dt"] = rng.choice(W.DT_CHOICES + [0.5, 1.0, 2.0])
            if rng.random() < 0.3:
                kw["force_lattice"] = True
            if rng.random() < 0.15:
                kw["low_tmin"] = True
        else:
            kw["method"] = rng.choice(GOOD_METHODS)
            kw["overshoot"] = prop in ("C14",) and rng.random() < 0.05
        if prop in ("C09", "C17"):
            kw["system"] = rng.choice(SYSTEM_NAMES)
        kw["cli_spelling"] = not (prop == "C17" and rng.random() < 0.4)    # C17 also reads tables keyed c_11, cij11, C1122, ... (the fill COMMAND accepts cIJ/CIJ only)
        kw["full_output"] = prop == "C15" and rng.random() < 0.3
        kw["noise"] = prop == "C17" and rng.random() < 0.3
        w = W.gen_world(rng, tier, n, **kw)
        w["static"]["cli_ok"] = kw["cli_spelling"]
        if prop == "C14" and rng.random() < 0.04:
            # a refused calculation as part of the process history: schema-invalid settings
            w["settings"]["elast"]["settings"]["mode_gamma"]["interpolator"] = "cubic-spline"
            w["valid"] = False
        if prop == "C19":
            w["stubs"] = gen_stub_tables(rng, n, w, rng.randint(0, 2))
        if prop in ("C17", "C09") and rng.random() < 0.5:
            w["stubs"] = gen_stub_tables(rng, n, w, 1)      # other commands of the package used in the same process: history for the readers and for fill
        worlds[n] = w
    segments = prop in ("C14", "C12", "C15", "C19", "C09") and nclients > 1 and rng.random() < ((0.45 if prop in ("C14", "C12") else 0.3) if segments_p is None else segments_p)
    if segments or (prop in ("C15", "C19", "C17") and nclients > 1 and rng.random() < 0.6):
        for n in names:           # clients share one working directory: last writer wins
            if worlds[n]["datadir"] == worlds[n]["cwd"]:
                worlds[n]["datadir"] = "d" + n.lower()
            worlds[n]["cwd"] = "ws"
    programs = {n: gen_program(rng, prop, n, worlds[n], tier, no_chdir=bool(segments)) for n in names}
    if prop in ("C17", "C09"):
        for n in names:
            for st in worlds[n].get("stubs", []):
                for _ in range(rng.randint(1, 2)):
                    k = rng.randrange(len(programs[n]) + 1)
                    if rng.random() < 0.5:
                        op = {"op": "cli.extract", "variables": [st["var"]], "T": st["T"][rng.randrange(len(st["T"]))], "P": None, "hide_header": False}
                    else:
                        op = {"op": "cli.geotherm", "geotherm": "g.txt", "columns": ["P", "T"], "pname": "P", "tname": "T", "variables": [st["var"]],
                              "points": [[rng.choice(st["P"]), rng.choice(st["T"])] for _ in range(3)], "int_text": False, "hide_header": False, "abs": True}
                    for o in programs[n]:          # "ref" fields are program positions
                        if o.get("ref") is not None and o["ref"] >= k:
                            o["ref"] += 1
                    programs[n].insert(k, op)
    if prop == "C19" and nclients > 1 and len({worlds[n]["cwd"] for n in names}) == 1:
        # one directory collecting the results of several runs: a request may name tables of different runs (different grids)
        for n in names:
            others = [v for m in names if m != n for v in tp_variables(worlds[m], programs[m])]
            for op in programs[n]:
                if op["op"] in ("cli.extract", "cli.geotherm") and others and rng.random() < 0.35:
                    for v in rng.sample(others, min(len(others), rng.randint(1, 2))):
                        if v not in op["variables"]:
                            op["variables"].insert(rng.randrange(len(op["variables"]) + 1), v)
    if segments:
        for p in programs.values():     # the cwd is process-global and shared inside a segment: settings by absolute path
            for op in p:
                if "abs" in op:
                    op["abs"] = True
    for n in names:          # the simulated clock (file timestamps) advances before some operations, and only then
        for op in programs[n]:
            if rng.random() < 0.25 and not op.get("notick"):
                op["tick"] = rng.choice([1, 1, 2, 3, 60, 3600, 86400, -1, -3600])    # negative: the clock is stepped back
    for n in names:          # geotherm files get unique names per client
        for k, op in enumerate(programs[n]):
            if op["op"] == "cli.geotherm":
                op["geotherm"] = f"geotherm_{n.lower()}{k}.txt"
    extra = []
    for n in names:
        w = worlds[n]
        for st in w.get("stubs", []):
            extra.append({"client": n, "path": f"{w['cwd']}/{st['fname']}", "text": stub_table_text(st),
                          "model": {"poly": st["poly"], "kind": "stub-table"}})
        for op in programs[n]:
            if op["op"] == "cli.geotherm":
                fmt = (lambda x: "%d" % int(x)) if op.get("int_text") else (lambda x: repr(float(x)))
                text = "  ".join(op["columns"]) + "\n" + "\n".join("  ".join(fmt(x) for x in row) for row in op["points"]) + "\n"
                extra.append({"client": n, "path": f"{w['cwd']}/{op['geotherm']}", "text": text})
            if op["op"] == "fill.call" and isinstance(op["target"], dict) and "relations_" in op["target"]["relpath"] and "no_such" not in op["target"]["relpath"]:
                if not any(e["path"] == op["target"]["relpath"] for e in extra):
                    extra.append({"client": n, "path": op["target"]["relpath"], "text": W.relations_text(w["static"]["system"], rng)})
            if op["op"] == "fill.call" and isinstance(op["target"], dict) and op["target"].get("offset"):
                extra.append({"client": n, "path": op["target"]["relpath"], "text": W.relations_text(w["static"]["system"], rng, offset=op["target"]["offset"])})
    schedule = [n for n in names for _ in programs[n]]
    rng.shuffle(schedule)
    if segments:
        schedule = add_segments(rng, schedule, programs)
    if faults_enabled is None:
        faults_enabled = rng.random() < 0.5 and prop != "C09"
    faults = []
    if faults_enabled:
        nf = rng.randint(1, 2) if rng.random() < 0.6 else rng.randint(3, 5)
        faults = gen_faults(rng, programs, nf)
    if prop == "C09":
        clutter = gen_clutter(rng, worlds, shadow_bias=1.0)
    else:
        clutter = gen_clutter(rng, worlds) if rng.random() < 0.8 else []
    if prop == "C19":
        # near-miss names: entries whose names CONTAIN a variable name but do not match the documented <var>_tp_* pattern
        for n in names:
            vs = tp_variables(worlds[n], programs[n]) + [st["var"] for st in worlds[n].get("stubs", [])]
            for v in rng.sample(vs, min(len(vs), rng.randint(0, 3))):
                clutter.append({"dir": worlds[n]["cwd"], "name": rng.choice([f"old_{v}_tp_gpa.txt", f"x{v}_tp_old.txt", f"{v}.tp.bak", f"{v}_tpx_gpa.txt"]),
                                "kind": "file", "text": "T(K)\\P(GPa) 0.0 1.0\n0.0 9.9e+99 9.9e+99\n"})
    extra_paths = {e["path"] for e in extra}
    clutter = [c for c in clutter if f"{c['dir']}/{c['name']}" not in extra_paths]
    hs = HASH_SEEDS[tier]
    sess_hash = rng.choice(hs) if rng.random() < 0.5 else 0
    sc = {
        "format": 1, "property": prop, "seed": seed, "tier": tier,
        "hash_seeds": {"reference": 0, "session": sess_hash},
        "worlds": worlds, "clutter": clutter,
        "listing_perm_seed": rng.randint(1, 10 ** 6) if rng.random() < 0.7 else None,
        "programs": programs, "schedule": schedule, "faults": faults, "extra_files": extra,
    }
    return sc


ORACLES = {
    "C12": ["O-inv"],
    "C14": ["O-twice", "O-frame", "O-live", "O-order"],
    "C15": ["O-disk", "O-frame", "O-twice"],
    "C17": ["O-round"],
    "C19": ["O-extract"],
    "C09": ["O-env"],
}
