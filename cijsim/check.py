"""The check driver: ./check <id> {quick|thorough} [--replay FILE]

exit 0  property held on everything explored (KNOWN-FINDING lines possible)
exit 1  VIOLATION property=<id> replay=<path>
exit 2  harness error (nondeterminism self-check, dead worker, timeout, replay that does not reproduce)
"""
import copy
import json
import os
import re
import sys
import time

sys.path.insert(0, os.path.dirname(os.path.dirname(os.path.abspath(__file__))))

from cijsim import session as SS  # noqa: E402
from cijsim.pool import Pool  # noqa: E402

VERIF = os.path.dirname(os.path.dirname(os.path.abspath(__file__)))
EVIDENCE_DIR = os.environ.get("CIJSIM_EVIDENCE_DIR") or os.path.join(VERIF, "evidence")
REPLAY_DIR = os.environ.get("CIJSIM_REPLAY_DIR") or os.path.join(VERIF, "replays")
SESSION_PROPS = ["C09", "C12", "C14", "C15", "C17", "C19"]
NEEDS_SOLO = {"C14", "C09"}

BUDGET = {  # number of scenarios per tier
    "quick": {"C12": 220, "C14": 140, "C15": 150, "C17": 240, "C19": 200, "C09": 250},
    "thorough": {"C12": 5000, "C14": 3000, "C15": 3500, "C17": 4000, "C19": 3500, "C09": 4000},
}
WALL = {"quick": 150.0, "thorough": 1200.0}

# probes that must have been hit at least once in a thorough run: a probe stuck at zero means the workload or the
# fault mix no longer reaches the situation the check exists for (exit 2, never 0)
MANDATORY = {
    "C12": ["inv_calc_checked", "t_to_0_limit_checked", "inv_tp_checked", "inv_calc_after-history", "retry_after_cancel", "retry_after_alloc-fail",
            "retry_after_open-fail", "retry_after_read-fail", "two_calculators_alive"],
    "C14": ["reread", "refill_checked", "two_calculators_alive", "rewrite_same_variable", "mutate_config", "retry_after_cancel", "retry_after_alloc-fail",
            "retry_after_open-fail", "retry_after_read-fail", "retry_after_write-torn", "torn_file_rewritten", "chdir", "calc_dropped", "clutter_mid_session",
            "singleton_read_compared", "singleton_write_compared", "reread_on_another_calculator", "rewrite_by_another_calculator", "same_calculator_written_from_two_cwds"],
    "C15": ["disk_file_checked", "disk_file_checked_final", "file_overwritten_by_other_client", "torn_file_rewritten", "alias_rewrite", "unit_override",
            "fname_override", "retry_after_write-torn", "retry_after_cancel", "same_calculator_written_from_two_cwds", "one_list_object_for_both_bases",
            "ad_iso_files_differ", "calc_dropped"],
    "C17": ["round_qha_input_checked", "round_elast_data_checked", "energy_roundtrip_checked", "energy_file_overwritten_by_smaller", "energy_file_overwritten_same_size", "fill_roundtrip_checked"],
    "C19": ["extract_checked", "geotherm_node_checked", "geotherm_offnode_poly_checked", "extract_reads_other_clients_file", "extract_between_grid_values",
            "extract_reads_stub_table", "torn_file_rewritten", "chdir", "clutter_mid_session", "retry_after_list-fail"],
    "C09": ["fill_presentation_pair_checked", "fill_supplied_values_checked", "fill_nonexistent_path_rejected", "clutter_entries", "fill_refused_left_table_untouched",
            "fill_frame_reused_after_refusal", "fill_must_refuse_rank", "fill_must_refuse_residual", "fill_ignore_flag_rank", "fill_ignore_flag_residual"],
}

COMPARE_FIELDS = ["kind", "status", "exc", "where", "array", "stdout", "stdout_len", "files", "writes", "keys", "dims", "table", "data"]


def derive_seed(base, j):
    return (base * 1_000_003 + j * 10_007 + 17) % (2 ** 62)


def load_known():
    p = os.path.join(VERIF, "known_findings.json")
    if not os.path.exists(p):
        return []
    with open(p) as fp:
        return [f for f in json.load(fp)["findings"] if f.get("status", "open") == "open"]


def match_known(v, known):
    for f in known:
        if f["property"] != v["property"]:
            continue
        m = f["match"]
        ok = True
        for k, want in m.items():
            if k == "message_re":
                if not re.search(want, v.get("message", "")):
                    ok = False
            elif k.startswith("config."):
                if (v.get("config") or {}).get(k[7:]) != want:
                    ok = False
            elif v.get(k) != want:
                ok = False
        if ok:
            return f
    return None


def signature(v):
    msg = re.sub(r"\S+\.(txt|dat)", "<file>", v.get("message", ""))
    msg = re.sub(r"[-+]?\d+\.?\d*(e[-+]?\d+)?", "#", msg)
    return f"{v['oracle']}|{v['property']}|{msg[:120]}"


def sig_class(sig):
    """what a shrunk scenario must still exhibit: same oracle, same property, same kind of message."""
    o, p, m = sig.split("|", 2)
    return (o, p, m[:90])


# ---------------------------------------------------------------------------
# cross-run oracle: O-iso / O-env / O-live
# ---------------------------------------------------------------------------

FILL_OPS = {"fill.call", "cli.fill", "cli.refill"}


def compare_iso(sc, solos, sess, prop):
    out = []
    shared = len({w["cwd"] for w in sc["worlds"].values()}) < len(sc["worlds"])
    for c, prog in sc["programs"].items():
        solo = solos.get(c)
        if solo is None or "harness_error" in solo or "harness_error" in sess:
            continue
        so, se = solo["obs"].get(c, []), sess["obs"].get(c, [])
        if len(so) != len(se):
            out.append({"oracle": "O-iso", "property": "C14", "client": c, "op": -1,
                        "message": f"client {c} completed {len(se)} operations in the session, {len(so)} alone"})
            continue
        for i, (a, b) in enumerate(zip(so, se)):
            kind = a["kind"]
            if b.get("abandoned"):
                continue        # the client gave this read-only operation up after an injected fault: nothing to compare
            if prop == "C09" and kind not in FILL_OPS and kind != "calc.new":
                continue
            if shared and kind in ("cli.extract", "cli.geotherm"):
                continue
            for f in COMPARE_FIELDS:
                if a.get(f) != b.get(f):
                    faulted = b.get("attempts", 1) > 1
                    if prop == "C09":
                        oracle, p = "O-env", "C09"
                    else:
                        oracle, p = ("O-live" if faulted else "O-iso"), "C14"
                    out.append({"oracle": oracle, "property": p, "client": c, "op": i,
                                "message": f"{kind}: {f} differs between the session and the solo reference" + (" (after injected faults and retry)" if faulted else ""),
                                "field": f, "expected": a.get(f), "actual": b.get(f), "opdesc": prog[i]})
                    break
    return out


# ---------------------------------------------------------------------------

class Check:
    def __init__(self, prop, tier, base_seed, n=None, wall=None, workers=None):
        self.prop, self.tier, self.base_seed = prop, tier, base_seed
        self.n = n or BUDGET[tier][prop]
        self.wall = wall or WALL[tier]
        self.workers = workers or int(os.environ.get("VERIF_WORKERS", "16"))
        self.oracles = SS.ORACLES[prop]
        self.log_dir = os.path.join("/dev/shm" if os.path.isdir("/dev/shm") else "/tmp", f"cijsim-logs-{os.getpid()}")
        self.known = load_known()
        self.t0 = time.time()

    def hash_layout(self):
        hs = SS.HASH_SEEDS[self.tier]
        others = [h for h in hs if h != 0]
        n_other = max(len(others), self.workers // 4) if self.workers >= 8 else len(others)
        layout = [others[i % len(others)] for i in range(n_other)]
        layout += [0] * max(1, self.workers - len(layout))
        return layout

    def parts_for(self, sc):
        parts = []
        if self.prop in NEEDS_SOLO:
            for c in sc["programs"]:
                parts.append(("solo", c, sc["hash_seeds"]["reference"]))
        parts.append(("session", None, sc["hash_seeds"]["session"]))
        return parts

    def make_jobs(self, seeds, gen_kw=None):
        jobs, scs = [], {}
        for seed in seeds:
            sc = SS.gen_scenario(self.prop, seed, self.tier, **(gen_kw or {}))
            scs[seed] = sc
            for mode, c, h in self.parts_for(sc):
                j = {"id": f"{seed}:{mode}:{c}", "hash": h, "gen": [self.prop, seed, self.tier], "mode": mode, "client": c, "oracles": self.oracles}
                if gen_kw:
                    j["gen_kw"] = gen_kw
                jobs.append(j)
        return jobs, scs

    def evaluate(self, sc, res_by_part):
        """-> (verdicts of this property, harness errors)"""
        verdicts, errors = [], []
        sess = res_by_part.get(("session", None))
        solos = {c: r for (m, c), r in res_by_part.items() if m == "solo"}
        for key, r in res_by_part.items():
            if r is None:
                continue
            if "harness_error" in r:
                errors.append(f"{key}: {r['harness_error']}")
                continue
            if r.get("scenario_digest") and r["scenario_digest"] != SS.scenario_digest(sc):
                errors.append(f"{key}: scenario digest differs between coordinator and zygote (generator depends on the hash seed?)")
            for v in r["verdicts"]:
                if v["property"] == self.prop:
                    v = dict(v, part=key[0])
                    verdicts.append(v)
        if sess is not None and "harness_error" not in sess and self.prop in NEEDS_SOLO:
            verdicts += compare_iso(sc, solos, sess, self.prop)
        return verdicts, errors

    # -- running scenarios given explicitly (replay / shrink) --------------------------------
    def run_scenario(self, pool, sc):
        res = {}
        for mode, c, h in self.parts_for(sc):
            if h not in pool.by_hash:
                h = 0
            res[(mode, c)] = pool.call_any(h, {"id": "x", "scenario": sc, "mode": mode, "client": c, "oracles": self.oracles})
        return self.evaluate(sc, res)

    def shrink(self, pool, sc, target_sig, max_trials=60):
        """delta debugging over the scenario document; keeps a candidate only if the same
        oracle on the same property still fails."""
        trials = [0]

        def fails(cand):
            trials[0] += 1
            vs, errs = self.run_scenario(pool, cand)
            return any(sig_class(signature(v)) == sig_class(target_sig) for v in vs) and not errs

        cur = copy.deepcopy(sc)

        def attempt(cand):
            if trials[0] >= max_trials:
                return False
            if fails(cand):
                return True
            return False

        # 1. drop whole clients
        for c in list(cur["programs"]):
            if len(cur["programs"]) <= 1:
                break
            cand = copy.deepcopy(cur)
            del cand["programs"][c]
            del cand["worlds"][c]
            cand["schedule"] = [x for s in cand["schedule"] for x in ([m for m in s["par"] if m != c] if isinstance(s, dict) else ([s] if s != c else []))]
            cand["faults"] = [f for f in cand["faults"] if f["client"] != c]
            cand["clutter"] = [x for x in cand["clutter"]]
            cand["extra_files"] = [x for x in cand.get("extra_files", []) if x["client"] != c]
            if attempt(cand):
                cur = cand
        # 2. drop faults, clutter, permutation, hash seed
        for key in ("faults", "clutter"):
            i = 0
            while i < len(cur[key]):
                cand = copy.deepcopy(cur)
                del cand[key][i]
                if key == "faults":
                    # renumber attempts of the remaining faults of that operation
                    seen = {}
                    for f in cand["faults"]:
                        k = (f["client"], f["op"])
                        f["attempt"] = seen.get(k, 0)
                        seen[k] = f["attempt"] + 1
                if attempt(cand):
                    cur = cand
                else:
                    i += 1
        for key, val in (("listing_perm_seed", None),):
            if cur.get(key) is not None:
                cand = copy.deepcopy(cur)
                cand[key] = val
                if attempt(cand):
                    cur = cand
        # dissolve line-level segments, then shorten their switch lists
        si = 0
        while si < len(cur["schedule"]):
            s = cur["schedule"][si]
            if isinstance(s, dict):
                cand = copy.deepcopy(cur)
                cand["schedule"][si:si + 1] = list(s["par"])
                if attempt(cand):
                    cur = cand
                    si += 2
                    continue
                while len(cur["schedule"][si]["switches"]) > 1:
                    cand = copy.deepcopy(cur)
                    sw = cand["schedule"][si]["switches"]
                    cand["schedule"][si]["switches"] = sw[: len(sw) // 2]
                    if attempt(cand):
                        cur = cand
                    else:
                        break
            si += 1
        if cur["hash_seeds"]["session"] != 0:
            cand = copy.deepcopy(cur)
            cand["hash_seeds"]["session"] = 0
            if attempt(cand):
                cur = cand
        # 3. drop operations (from the end)
        for c in list(cur["programs"]):
            i = len(cur["programs"][c]) - 1
            while i >= 0:
                if len(cur["programs"][c]) <= 1:
                    break
                cand = copy.deepcopy(cur)
                del cand["programs"][c][i]
                # remove the i-th occurrence of c from the schedule
                k = -1
                for si, s in enumerate(cand["schedule"]):
                    members = s["par"] if isinstance(s, dict) else [s]
                    if c in members:
                        k += 1
                        if k == i:
                            if isinstance(s, dict):     # dissolve the segment: the other member stays as a plain step
                                rest = [m for m in members if m != c]
                                cand["schedule"][si:si + 1] = rest
                            else:
                                del cand["schedule"][si]
                            break
                nf = []
                for f in cand["faults"]:
                    if f["client"] == c:
                        if f["op"] == i:
                            continue
                        if f["op"] > i:
                            f = dict(f, op=f["op"] - 1)
                    nf.append(f)
                cand["faults"] = nf
                if attempt(cand):
                    cur = cand
                i -= 1
        cur["shrink_trials"] = trials[0]
        return cur

    # -- main ------------------------------------------------------------------------------
    def run(self):
        prop = self.prop
        seeds = [derive_seed(self.base_seed, j) for j in range(self.n)]
        print(f"VERIF_SEED={self.base_seed} property={prop} tier={self.tier} scenarios<={self.n} workers={self.workers}", flush=True)
        pool = Pool(self.hash_layout(), self.log_dir)
        try:
            return self._run(pool, seeds)
        finally:
            pool.close()
            import shutil
            shutil.rmtree(self.log_dir, ignore_errors=True)

    def _run(self, pool, seeds):
        deadline = time.monotonic() + self.wall
        jobs, scs = self.make_jobs(seeds)
        phases = {"start_zygotes": round(time.time() - self.t0, 1)}
        t1 = time.time()
        results = pool.run_jobs(jobs, deadline=deadline)
        phases["random_batch"] = round(time.time() - t1, 1)
        by_seed = {}
        for j in jobs:
            seed = int(j["id"].split(":")[0])
            by_seed.setdefault(seed, {})[(j["mode"], j["client"])] = results.get(j["id"])
        done_seeds = [s for s in seeds if all(r is not None for r in by_seed.get(s, {"x": None}).values())]
        harness, violations, known_hits = [], [], {}
        agg = Aggregate(self.prop)
        for s in done_seeds:
            vs, errs = self.evaluate(scs[s], by_seed[s])
            harness += [f"seed {s}: {e}" for e in errs]
            sess = by_seed[s].get(("session", None))
            agg.add(scs[s], by_seed[s], vs)
            for v in vs:
                kf = match_known(v, self.known)
                if kf is not None:
                    known_hits.setdefault(kf["id"], [kf, 0])[1] += 1
                else:
                    violations.append((s, v))
        # fault sweep: one fault at every fault point of a few seeded base scenarios (cijsim/sweep.py)
        if not os.environ.get("VERIF_NO_SWEEP"):
            try:
                t1 = time.time()
                self.sweep(pool, scs, agg, harness, violations, known_hits)
                phases["fault_sweep"] = round(time.time() - t1, 1)
                if self.prop in ("C12", "C14", "C15", "C19", "C09"):
                    t1 = time.time()
                    self.sweep_interleavings(pool, scs, agg, harness, violations, known_hits)
                    phases["interleaving_sweep"] = round(time.time() - t1, 1)
            except Exception as e:  # the sweep is part of the check: its failure is a harness error, never silence
                import traceback
                harness.append(f"fault sweep failed: {type(e).__name__}: {e} {traceback.format_exc()[-400:]}")
        # determinism self-check: re-run 5 % of the seeds on another zygote, compare event logs
        nd = max(2, len(done_seeds) // 20) if done_seeds else 0
        redo = done_seeds[:: max(1, len(done_seeds) // nd)][:nd] if nd else []
        if redo and time.monotonic() < deadline + 60:
            jobs2, _ = self.make_jobs(redo)
            for j in jobs2:
                j["id"] = "re:" + j["id"]
            res2 = pool.run_jobs(list(reversed(jobs2)))
            for j in jobs2:
                a, b = results.get(j["id"][3:]), res2.get(j["id"])
                if a is None or b is None or "harness_error" in a or "harness_error" in b:
                    continue
                if a["event_digest"] != b["event_digest"] or a["obs"] != b["obs"]:
                    harness.append(f"nondeterminism: {j['id'][3:]} gave different event logs in two executions (zygotes {a.get('_zygote')} and {b.get('_zygote')})")
            agg.determinism_reruns = len(jobs2)
        phases["total_before_replays"] = round(time.time() - self.t0, 1)
        agg.phases = phases
        wall = time.time() - self.t0
        for kid, (kf, n) in sorted(known_hits.items()):
            print(f"KNOWN-FINDING: property={kf['property']} {kf['what']} [{n} occurrences this run]")
        rc = 0
        replays = []
        if violations:
            seen = {}
            for s, v in violations:
                seen.setdefault(signature(v), (s, v))
            for k, (sig, (s, v)) in enumerate(list(seen.items())[:3]):
                path = self.write_replay(pool, scs[s], v, sig, k)
                with open(path) as fp:
                    reproduced = json.load(fp).get("reproduced_in_fresh_fork")
                if not reproduced:
                    # a violation that a fresh fork of the same scenario does not show again is nondeterminism of the harness, not a finding
                    harness.append(f"violation of seed {s} ({v['oracle']}: {v['message'][:120]}) did not reproduce when its (minimised) scenario was replayed in a fresh fork: {path}")
                    continue
                rc = 1
                replays.append(path)
                print(f"VIOLATION property={self.prop} replay={path}")
                print(f"  seed={s} oracle={v['oracle']} client={v.get('client')} op={v.get('op')}: {v['message'][:300]}")
        if harness:
            for h in harness[:10]:
                print("HARNESS:", h)
            if rc == 0:
                rc = 2
        if len(done_seeds) == 0:
            print("HARNESS: no scenario completed")
            rc = rc or 2
        if self.tier == "thorough" and not os.environ.get("VERIF_N"):
            missing = [p for p in MANDATORY.get(self.prop, []) if agg.probes.get(p, 0) == 0]
            if self.prop == "C14" and agg.switches == 0:
                missing.append("line_level_switches")
            if self.prop == "C12":
                import itertools
                from cijsim import world as _W
                want = [f"{m}:{o}" for m in _W.INTERPOLATORS for o in _W.admissible_orders(m, 9)]
                have = agg.coverage.get("interp_order", {})
                missing += [f"coverage interp_order {w}" for w in want if w not in have and not w.startswith("hermite")]
                missing += [f"coverage system {s}" for s in _W.SYSTEMS if s not in agg.coverage.get("system", {})]
            if missing:
                harness.append(f"mandatory probes at zero: {missing}")
                print("HARNESS: mandatory probes at zero:", missing)
                rc = rc or 2
        agg.write_evidence(self, wall, len(done_seeds), len(violations), known_hits, harness)
        print(f"{self.prop} {self.tier}: {len(done_seeds)} scenarios, {agg.parts} parts, {agg.ops} operations, "
              f"{len(violations)} violations, {sum(n for _, n in known_hits.values())} known-finding hits, {len(harness)} harness errors, {wall:.1f}s")
        return rc

    def sweep(self, pool, scs, agg, harness, violations, known_hits):
        from cijsim import sweep as SW
        nb = {"quick": 6, "thorough": 30}[self.tier]
        cap = {"quick": 36, "thorough": 400}[self.tier]
        wall = {"quick": 45.0, "thorough": 600.0}[self.tier]
        deadline = time.monotonic() + wall
        seeds = [derive_seed(self.base_seed, 100000 + j) for j in range(nb)]
        bases = {s: SW.base_scenario(self.prop, s, self.tier) for s in seeds}
        pj = [{"id": f"pb:{s}", "hash": 0, "scenario": dict(b, _profile=True), "mode": "session", "client": None, "oracles": []} for s, b in bases.items()]
        pres = pool.run_jobs(pj, deadline=deadline)
        jobs, var = [], {}
        for s, b in bases.items():
            r = pres.get(f"pb:{s}")
            if r is None or "harness_error" in r:
                if r is not None:
                    harness.append(f"sweep base {s}: {r['harness_error']}")
                continue
            vs = SW.variants(b, r.get("profile") or [], s, cap)
            if self.prop in NEEDS_SOLO:
                for c in b["programs"]:
                    jobs.append({"id": f"sb:{s}:{c}", "hash": 0, "scenario": b, "mode": "solo", "client": c, "oracles": self.oracles})
            for k, sc in enumerate(vs):
                var[(s, k)] = sc
                jobs.append({"id": f"sv:{s}:{k}", "hash": 0, "scenario": sc, "mode": "session", "client": None, "oracles": self.oracles})
        res = pool.run_jobs(jobs, deadline=deadline)
        st = agg.sweep
        st["bases"] = len(bases)
        for (s, k), sc in var.items():
            r = res.get(f"sv:{s}:{k}")
            if r is None:
                st["not_run_in_time"] = st.get("not_run_in_time", 0) + 1
                continue
            parts = {("session", None): r}
            ok = True
            for c in sc["programs"]:
                sr = res.get(f"sb:{s}:{c}")
                if self.prop in NEEDS_SOLO:
                    if sr is None:
                        ok = False
                    else:
                        parts[("solo", c)] = {kk: vv for kk, vv in sr.items() if kk != "scenario_digest"}
            if not ok:
                continue
            vds, errs = self.evaluate(sc, parts)
            harness += [f"sweep {s}#{k}: {e}" for e in errs]
            st["variants"] = st.get("variants", 0) + 1
            bk = st.setdefault("by_fault", {})
            bk[sc["sweep_fault"]] = bk.get(sc["sweep_fault"], 0) + 1
            if "harness_error" not in r:
                fired = sum(r["stats"]["faults_fired"].values())
                st["fired"] = st.get("fired", 0) + (1 if fired else 0)
                agg.add(sc, {("session", None): r}, vds)
            key = f"{s}#{k}"
            scs[key] = sc
            for v in vds:
                kf = match_known(v, self.known)
                if kf is not None:
                    known_hits.setdefault(kf["id"], [kf, 0])[1] += 1
                else:
                    violations.append((key, dict(v, sweep=sc["sweep_fault"])))

    def sweep_interleavings(self, pool, scs, agg, harness, violations, known_hits):
        """one ping-pong switch point at (the first execution of) every distinct source line of a member of a two-client segment"""
        from cijsim import sweep as SW
        nb = {"quick": 3, "thorough": 12}[self.tier]
        cap = {"quick": 24, "thorough": 300}[self.tier]
        wall = {"quick": 30.0, "thorough": 400.0}[self.tier]
        deadline = time.monotonic() + wall
        seeds = [derive_seed(self.base_seed, 200000 + j) for j in range(nb)]
        bases = {}
        for s in seeds:
            b = SW.pair_base(self.prop, s, self.tier)
            if b is not None:
                bases[s] = b
        pres = pool.run_jobs([{"id": f"pi:{s}", "hash": 0, "scenario": SW.sequential_twin(b), "mode": "session", "client": None, "oracles": []} for s, b in bases.items()],
                             deadline=deadline)
        jobs, var = [], {}
        for s, b in bases.items():
            r = pres.get(f"pi:{s}")
            if r is None or "harness_error" in r:
                if r is not None:
                    harness.append(f"interleaving sweep base {s}: {r['harness_error']}")
                continue
            if self.prop in NEEDS_SOLO:
                for c in b["programs"]:
                    jobs.append({"id": f"ib:{s}:{c}", "hash": 0, "scenario": b, "mode": "solo", "client": c, "oracles": self.oracles})
            for k, sc in enumerate(SW.interleavings(b, r.get("profile") or [], s, cap)):
                var[(s, k)] = sc
                jobs.append({"id": f"iv:{s}:{k}", "hash": 0, "scenario": sc, "mode": "session", "client": None, "oracles": self.oracles})
        res = pool.run_jobs(jobs, deadline=deadline)
        st = agg.sweep.setdefault("interleavings", {})
        st["bases"] = len(bases)
        for (s, k), sc in var.items():
            r = res.get(f"iv:{s}:{k}")
            if r is None:
                st["not_run_in_time"] = st.get("not_run_in_time", 0) + 1
                continue
            parts = {("session", None): r}
            ok = True
            if self.prop in NEEDS_SOLO:
                for c in sc["programs"]:
                    sr = res.get(f"ib:{s}:{c}")
                    if sr is None:
                        ok = False
                    else:
                        parts[("solo", c)] = {kk: vv for kk, vv in sr.items() if kk != "scenario_digest"}
            if not ok:
                continue
            vds, errs = self.evaluate(sc, parts)
            harness += [f"interleaving sweep {s}#{k}: {e}" for e in errs]
            st["variants"] = st.get("variants", 0) + 1
            bp = st.setdefault("by_pair", {})
            bp[sc["sweep_fault"]] = bp.get(sc["sweep_fault"], 0) + 1
            if "harness_error" not in r:
                st["switched"] = st.get("switched", 0) + (1 if r["stats"].get("switches", 0) else 0)
                st["both_in_same_function"] = st.get("both_in_same_function", 0) + r["stats"]["probes"].get("pingpong_both_in_same_function", 0)
                agg.add(sc, {("session", None): r}, vds)
            key = f"{s}@{k}"
            scs[key] = sc
            for v in vds:
                kf = match_known(v, self.known)
                if kf is not None:
                    known_hits.setdefault(kf["id"], [kf, 0])[1] += 1
                else:
                    violations.append((key, dict(v, sweep=sc["sweep_fault"], site=sc.get("sweep_site"))))

    def write_replay(self, pool, sc, v, sig, k=0):
        os.makedirs(REPLAY_DIR, exist_ok=True)
        small = sc
        try:
            small = self.shrink(pool, sc, sig, max_trials=60 if self.tier == "thorough" else 25)
        except Exception as e:  # shrinking is best effort
            print("HARNESS: shrink failed:", e)
        vs, errs = self.run_scenario(pool, small)
        mine = [x for x in vs if sig_class(signature(x)) == sig_class(sig)]
        if not mine and small is not sc:
            # the minimised scenario does not show it: fall back to the scenario as it was found
            small = sc
            vs, errs = self.run_scenario(pool, small)
            mine = [x for x in vs if sig_class(signature(x)) == sig_class(sig)]
        doc = {"format": 1, "property": self.prop, "scenario": small, "verdict": (mine[0] if mine else v),
               "original_seed": sc["seed"], "reproduced_in_fresh_fork": bool(mine), "signature": sig}
        path = os.path.join(REPLAY_DIR, f"{self.prop}-{sc['seed']}-{k}.json")
        with open(path, "w") as fp:
            json.dump(doc, fp, indent=1, default=str)
        return path

    def replay(self, path):
        with open(path) as fp:
            doc = json.load(fp)
        sc = doc["scenario"]
        hs = sorted({0, sc["hash_seeds"]["session"], sc["hash_seeds"]["reference"]})
        pool = Pool(hs, self.log_dir)
        try:
            vs, errs = self.run_scenario(pool, sc)
        finally:
            pool.close()
        want = doc["verdict"]
        for e in errs:
            print("HARNESS:", e)
        same = [v for v in vs if v["oracle"] == want["oracle"] and v.get("client") == want.get("client") and v.get("op") == want.get("op")]
        if same:
            print(f"VIOLATION property={self.prop} replay={path}")
            print(f"  reproduced: oracle={same[0]['oracle']} client={same[0].get('client')} op={same[0].get('op')}: {same[0]['message'][:300]}")
            return 1
        print(f"replay {path}: violation not reproduced ({len(vs)} other verdicts)")
        for v in vs[:5]:
            print("  other:", v["oracle"], v["message"][:200])
        return 2 if errs else 0


class Aggregate:
    def __init__(self, prop):
        self.prop = prop
        self.parts = 0
        self.ops = 0
        self.attempts = 0
        self.line_events = 0
        self.switches = 0
        self.events = 0
        self.faults_planned = 0
        self.faults_fired = {}
        self.fault_sites = {}
        self.probes = {}
        self.coverage = {}
        self.seam = {}
        self.hash_seeds = {}
        self.interleavings = set()
        self.nontrivial = set()
        self.digests = set()
        self.samples = []
        self.determinism_reruns = 0
        self.clients_hist = {}
        self.op_kinds = {}
        self.switch_sites = {}
        self.sweep = {}

    @staticmethod
    def _merge(dst, src):
        for k, v in src.items():
            if isinstance(v, dict):
                Aggregate._merge(dst.setdefault(k, {}), v)
            elif isinstance(v, (int, float)):
                dst[k] = dst.get(k, 0) + v

    def add(self, sc, parts, verdicts):
        import hashlib
        dig = SS.scenario_digest(sc)
        self.digests.add(dig)
        sess = parts.get(("session", None))
        for key, r in parts.items():
            if r is None or "harness_error" in r:
                continue
            self.parts += 1
            st = r["stats"]
            self.ops += st["ops"]
            self.attempts += st["attempts"]
            self.line_events += st.get("line_events", 0)
            self.switches += st.get("switches", 0)
            self.events += r.get("n_events", 0)
            if key[0] == "session":
                self.faults_planned += st["faults_planned"]
                self._merge(self.faults_fired, st["faults_fired"])
                self._merge(self.fault_sites, st["fault_sites"])
                self._merge(self.seam, {k: v for k, v in st["seam"].items() if not isinstance(v, dict)})
            self._merge(self.probes, st["probes"])
            self._merge(self.switch_sites, st.get("switch_sites", {}))
            self._merge(self.coverage, st["coverage"])
        h = sc["hash_seeds"]["session"]
        self.hash_seeds[str(h)] = self.hash_seeds.get(str(h), 0) + 1
        nc = len(sc["programs"])
        self.clients_hist[str(nc)] = self.clients_hist.get(str(nc), 0) + 1
        for p in sc["programs"].values():
            for op in p:
                self.op_kinds[op["op"]] = self.op_kinds.get(op["op"], 0) + 1
        if nc > 1:
            self.interleavings.add(hashlib.sha256(json.dumps([s if isinstance(s, str) else "seg" for s in sc["schedule"]]).encode()).hexdigest())
        if sess is not None and "harness_error" not in sess:
            st = sess["stats"]
            eff = (sum(st["faults_fired"].values()) > 0 or st["seam"].get("scandir_permuted", 0) > 0
                   or st["seam"].get("shadow_stat_hits", 0) > 0 or st["probes"].get("two_calculators_alive", 0) > 0
                   or st["probes"].get("file_overwritten_by_other_client", 0) > 0 or h != 0 or st.get("segments_run", 0) > 0)
            if eff:
                self.nontrivial.add(dig)
        if len(self.samples) < 3:
            self.samples.append({
                "seed": sc["seed"], "hash_seed_session": h,
                "programs": {c: [summarise_op(o) for o in p] for c, p in sc["programs"].items()},
                "schedule": [s if isinstance(s, str) else "segment" for s in sc["schedule"]],
                "faults": sc["faults"], "clutter": [f"{c['dir']}/{c['name']}({c['kind']})" for c in sc["clutter"]],
                "listing_perm_seed": sc["listing_perm_seed"],
                "config": {c: {"system": w["static"]["system"], "mode_gamma": w["settings"]["elast"]["settings"]["mode_gamma"],
                               "qha": w["settings"]["qha"]["settings"]} for c, w in sc["worlds"].items()},
            })

    def write_evidence(self, chk, wall, done, nviol, known_hits, harness):
        runs_per_hour = (done / wall * 3600.0) if wall > 0 else 0.0
        ev = {
            "property_id": self.prop, "tier": chk.tier, "seed": chk.base_seed, "level": "exploration",
            "wall_s": round(wall, 2), "violations": nviol,
            "coverage": {
                "evaluations": done,
                "distinct_nontrivial": len(self.nontrivial),
                "rule": ("one evaluation = one simulated session (a scenario generated from one seed: 1-3 clients, their operation programs, "
                         "operation-level interleaving, environment perturbations, fault plan), executed in a fresh fork" +
                         (" together with one solo fresh-fork reference run per client" if self.prop in NEEDS_SOLO else "") +
                         "; distinct = distinct scenario digest (sha-256 of the canonical scenario document); non-trivial = at least one injected fault "
                         "fired, or a directory listing was actually permuted, or a shadow name planted in the cwd was actually stat()ed by cij, or two "
                         "calculators were alive at once, or a file of one client was overwritten by another, or the session ran under a hash seed "
                         "different from its reference, or a line-level segment ran"),
                "samples": self.samples,
                "simulated_runs": done, "simulated_runs_including_sweeps": done + int(self.sweep.get("variants", 0)) + int((self.sweep.get("interleavings") or {}).get("variants", 0)),
                "parts_executed": self.parts, "operations_executed": self.ops, "operation_attempts": self.attempts,
                "runs_per_hour": round(runs_per_hour),
                "runs_per_hour_including_sweeps": round((done + int(self.sweep.get("variants", 0)) + int((self.sweep.get("interleavings") or {}).get("variants", 0))) / wall * 3600.0) if wall > 0 else 0,
                "seeds": f"derive_seed({chk.base_seed}, j) for j < {chk.n}",
                "simulated_time": ("cij reads no clock; the simulator's time is its global event sequence number (events logged: %d). The one clock-like thing a "
                                   "change to cij could read -- file timestamps -- is simulated: the sessions advanced that clock %d times, %d simulated seconds "
                                   "forward in total, and stepped it back %d times; %d stat results carried simulated timestamps")
                                  % (self.events, self.seam.get("clock_advanced", 0), self.seam.get("clock_seconds_forward", 0), self.seam.get("clock_steps_back", 0),
                                     self.seam.get("stat_retimed", 0)),
                "line_events_stepped": self.line_events, "line_level_switches": self.switches,
                "distinct_switch_sites": len(self.switch_sites),
                "switch_sites_top": dict(sorted(self.switch_sites.items(), key=lambda kv: -kv[1])[:25]),
                "faults": {"planned": self.faults_planned, "fired_by_kind": self.faults_fired, "fired_by_site": self.fault_sites},
                "perturbations": self.seam, "hash_seeds_session": self.hash_seeds,
                "distinct_operation_interleavings": len(self.interleavings),
                "clients_per_session": self.clients_hist, "operation_kinds_generated": self.op_kinds,
                "fault_sweep": dict(self.sweep, rule="seeded single-client base scenarios executed once under a profiler, then once per fault point with exactly one "
                                    "fault there (open-fail at every open, read-fail after 1/2/4 reads at every read open, write-torn keeping 0/50/100 % at every write "
                                    "open, list-fail, cancel / alloc-fail at the first execution of every distinct cij source line of the operation, at a later execution of half of them, and "
                                    "on a geometric ladder of positions); variants beyond the cap are sampled by the seeded PRNG"),
                "probes": self.probes, "coverage_tables": self.coverage,
                "determinism_reruns": self.determinism_reruns, "wall_s_by_phase": getattr(self, "phases", {}),
                "known_finding_hits": {k: n for k, (_, n) in known_hits.items()},
                "harness_errors": harness[:20],
                "real_components": ["cij (all modules, working tree of /repo)", "qha", "numpy", "scipy", "pandas", "pint", "sympy", "jsonschema", "networkx", "click", "PyYAML"],
                "stubs": ["upstream tools that write the input files (cijsim.world writers)", "filesystem fault layer (cijsim.seams)", "the user driving the API (cijsim.ops programs)"],
                "oracles": chk.oracles + (["O-iso/O-env/O-live (coordinator)"] if self.prop in NEEDS_SOLO else []),
            },
            "assumptions": [
                "single-threaded BLAS (OPENBLAS/OMP/MKL_NUM_THREADS=1)",
                "input files are well-formed (no corrupt-input faults are injected: every property is conditioned on well-formed input)",
                "the solo reference executes the same code; a defect identical in both runs is invisible to O-iso",
            ],
        }
        os.makedirs(EVIDENCE_DIR, exist_ok=True)
        with open(os.path.join(EVIDENCE_DIR, f"{self.prop}.json"), "w") as fp:
            json.dump(ev, fp, indent=1, default=str)


def summarise_op(o):
    s = {k: v for k, v in o.items() if k in ("op", "h", "base", "name", "vars", "system", "what", "variables", "T", "P")}
    return s


def main(argv):
    prop = argv[1]
    tier = os.environ.get("VERIF_TIER") or (argv[2] if len(argv) > 2 and not argv[2].startswith("--") else "quick")
    base_seed = int(os.environ.get("VERIF_SEED", "20261004"))
    if prop == "C04":
        from cijsim import tasksim_check
        return tasksim_check.main(argv, tier, base_seed)
    n = int(os.environ["VERIF_N"]) if os.environ.get("VERIF_N") else None
    chk = Check(prop, tier, base_seed, n=n)
    if "--replay" in argv:
        return chk.replay(argv[argv.index("--replay") + 1])
    return chk.run()


if __name__ == "__main__":
    sys.exit(main(sys.argv))
