"""The simulator's own parser for the output-table format and for command stdout
tables (independent of pandas.read_table, which the code under test uses)."""
import math


def _decimals_tol(tok):
    """half a unit in the last printed digit of a numeric token."""
    t = tok.lower()
    if "nan" in t or "inf" in t:
        return 0.0
    mant, exp = (t.split("e") + ["0"])[:2]
    d = len(mant.split(".")[1]) if "." in mant else 0
    return 0.5000001 * 10.0 ** (int(exp) - d)


def parse_table(text):
    """-> (corner, col_tokens, row_tokens, value_tokens[list of lists])."""
    lines = [ln for ln in text.split("\n") if ln.strip() != ""]
    if not lines:
        raise ValueError("empty table")
    head = lines[0].split()
    corner, cols = head[0], head[1:]
    rows, vals = [], []
    for ln in lines[1:]:
        toks = ln.split()
        rows.append(toks[0])
        vals.append(toks[1:])
    return corner, cols, rows, vals


def tok_float(tok):
    t = tok.lower()
    if t == "nan":
        return math.nan
    return float(tok)


def parse_table_numeric(text):
    corner, cols, rows, vals = parse_table(text)
    ncol = len(cols)
    for r, v in zip(rows, vals):
        if len(v) != ncol:
            raise ValueError(f"row {r}: {len(v)} values for {ncol} columns")
    return {
        "corner": corner,
        "cols": [tok_float(c) for c in cols], "col_tok": cols,
        "rows": [tok_float(r) for r in rows], "row_tok": rows,
        "vals": [[tok_float(x) for x in v] for v in vals], "val_tok": vals,
    }


def label_close(tok, expected, rel=1e-9, abs_=0.0):
    x = tok_float(tok)
    tol = _decimals_tol(tok) + rel * abs(expected) + abs_
    return abs(x - expected) <= tol


def value_close_printed(tok, expected, rel=0.0):
    """is the printed token the rounding of `expected` (to its own printed precision)?"""
    x = tok_float(tok)
    if math.isnan(x) or math.isnan(expected):
        return math.isnan(x) and math.isnan(expected)
    if math.isinf(x) or math.isinf(expected):
        return x == expected
    return abs(x - expected) <= _decimals_tol(tok) * 1.0000001 + rel * abs(expected)
