"""O-order (C14): singleton references.

"... regardless ... of how many times or in which order results were read or written before."  The solo fresh-fork
reference executes the client's own program, so an order dependence *inside* one calculator object (a cache shared
between two views, a lazily filled table that the first reader shapes) is identical in reference and session and O-iso
cannot see it.  Like tasksim's singleton requests (C04), this module computes, in a forked child of the *pristine* solo
process (before the program runs), a handful of the program's reads and writes each on a fresh Calculator that has done
nothing else.  After the program has run, every in-program observation of the same read / write must be byte-identical.
"""
import hashlib
import json
import os
import random
import select
import signal
import time
import traceback

from . import world as W

MAX_READS, MAX_WRITES = 5, 2


def plan(scenario, client):
    prog = scenario["programs"][client]
    rng = random.Random((scenario["seed"] * 2654435761 + sum(map(ord, client))) % (2 ** 61))
    reads = []
    for op in prog:
        if op["op"] == "calc.read" and (op["base"], op["name"]) != ("calc", "config") and [op["base"], op["name"]] not in reads:
            reads.append([op["base"], op["name"]])
    if len(reads) > MAX_READS:
        reads = rng.sample(reads, MAX_READS)
    by_kw = {kw: r for r in W.rules()["rules"] for kw in r["keywords"]}
    writes = []
    for k, op in enumerate(prog):
        if op["op"] == "calc.write" and op.get("vars") and op["vars"]["base"] != "both":
            lst = op["vars"]["list"]
            rules_used = [id(by_kw.get(e if isinstance(e, str) else e["keyword"])) for e in lst]
            for j, e in enumerate(lst):
                if rules_used.count(rules_used[j]) == 1:          # no other entry of this call writes the same file(s)
                    writes.append({"op": k, "base": op["vars"]["base"], "entry": e})
    if len(writes) > MAX_WRITES:
        writes = rng.sample(writes, MAX_WRITES)
    return {"reads": reads, "writes": writes}


def _sha(b):
    return hashlib.sha256(b).hexdigest()


def compute(runner, client, pl, scratch, timeout=90.0):
    """fork a child of the (still pristine) solo process; returns {"reads": {...}, "writes": [...]} or None"""
    rfd, wfd = os.pipe()
    pid = os.fork()
    if pid == 0:
        os.close(rfd)
        out = {"reads": {}, "writes": []}
        try:
            import logging
            import sys
            import cij.core.calculator as cc
            from .ops import Handle, arr_digest
            logging.getLogger("cij").handlers[:] = []
            sys.stdout = sys.stderr = open(os.devnull, "w")
            w = runner.sc["worlds"][client]
            settings = os.path.join(runner.root, w["datadir"], w["settings_name"])
            os.makedirs(scratch, exist_ok=True)
            os.chdir(scratch)
            for base, name in pl["reads"]:
                try:
                    h = Handle(cc.Calculator(settings), w, settings)
                    kind, val = runner._resolve(h, base, name)
                    out["reads"][f"{base}|{name}"] = ["json", len(val), _sha(val.encode())] if kind == "json" else arr_digest(val)
                except Exception as e:
                    out["reads"][f"{base}|{name}"] = {"exc": type(e).__name__}
            for k, wr in enumerate(pl["writes"]):
                d = os.path.join(scratch, f"w{k}")
                os.makedirs(d, exist_ok=True)
                os.chdir(d)
                try:
                    calc = cc.Calculator(settings)
                    obj = calc.pressure_base if wr["base"] == "pressure_base" else calc.volume_base
                    obj.write_variables([wr["entry"]])
                    files = {}
                    for fn in sorted(os.listdir(d)):
                        with open(os.path.join(d, fn), "rb") as fp:
                            files[fn] = _sha(fp.read())
                    out["writes"].append({"op": wr["op"], "files": files})
                except Exception as e:
                    out["writes"].append({"op": wr["op"], "exc": type(e).__name__})
            data = json.dumps(out).encode()
        except BaseException as e:  # noqa
            data = json.dumps({"harness_error": f"{type(e).__name__}: {e}", "trace": traceback.format_exc()}).encode()
        try:
            with os.fdopen(wfd, "wb") as fp:
                fp.write(data)
        finally:
            os._exit(0)
    os.close(wfd)
    chunks = []
    deadline = time.monotonic() + timeout
    while True:
        left = deadline - time.monotonic()
        if left <= 0:
            os.kill(pid, signal.SIGKILL)
            break
        r, _, _ = select.select([rfd], [], [], min(left, 5.0))
        if r:
            b = os.read(rfd, 1 << 20)
            if not b:
                break
            chunks.append(b)
    os.close(rfd)
    os.waitpid(pid, 0)
    if not chunks:
        raise RuntimeError("singleton-reference child died or timed out")
    res = json.loads(b"".join(chunks))
    if "harness_error" in res:
        raise RuntimeError("singleton-reference child failed: " + res["harness_error"] + "\n" + res.get("trace", ""))
    return res


def compare(runner, client, pl, ref):
    prog = runner.sc["programs"][client]
    obs = runner.obs[client]
    for k, (op, rec) in enumerate(zip(prog, obs)):
        if op["op"] == "calc.read" and rec["status"] == "ok":
            want = ref["reads"].get(f"{op['base']}|{op['name']}")
            if want is None or isinstance(want, dict):
                continue
            runner.probe("singleton_read_compared")
            if rec.get("array") != want:
                runner.verdict("O-order", "C14", client, k,
                               f"{op['base']}.{op['name']} depends on what was read or written before: the value read at this point of the program differs "
                               f"from the first read of a fresh calculator that did nothing else", expected=want, actual=rec.get("array"))
    for wr in ref["writes"]:
        if "files" not in wr or wr["op"] >= len(obs):
            continue
        rec = obs[wr["op"]]
        if rec["status"] != "ok":
            continue
        got = {os.path.basename(f[0]): f[1] for f in rec.get("files", [])}
        for fn, sha in wr["files"].items():
            if fn in got:
                runner.probe("singleton_write_compared")
                if got[fn] != sha:
                    runner.verdict("O-order", "C14", client, wr["op"],
                                   f"output file {fn} depends on what was read or written before: the bytes written at this point of the program differ "
                                   f"from those a fresh calculator writes for the same entry")
