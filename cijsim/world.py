"""World generator for cijsim.

A *world* is everything one logical client owns: a phonon data set, a static
elasticity table, a settings file, a working directory and a data directory.
It is plain data (dict / list / float / int / str) drawn from one
``random.Random`` so that it can be stored in a replay file, and it is written
to disk by this module's own writers -- a *stub* of the upstream tools (QE,
thermo.f, a user's editor) that produce such files.  The numbers written are
kept as ground truth.

Nothing here imports cij.
"""
import json
import math
import os

import numpy

RY_B3_TO_GPA = 14710.507848260711  # CODATA 2018: 1 Ry/bohr^3 in GPa (see units.py)

# ---------------------------------------------------------------------------
# crystal systems: independent parameters -> all 21 components
# ---------------------------------------------------------------------------

ALL21 = [f"{i}{j}" for i in range(1, 7) for j in range(i, 7)]
ORTHO9 = ["11", "22", "33", "12", "13", "23", "44", "55", "66"]


def _expand(system, p):
    """p: dict of independent parameters (strings 'ij' -> float) -> 21 dict."""
    c = {k: 0.0 for k in ALL21}
    if system == "triclinic":
        c.update(p)
    elif system == "monoclinic":
        c.update(p)
    elif system == "orthorhombic":
        c.update(p)
    elif system in ("tetragonal6", "tetragonal7"):
        c["11"] = c["22"] = p["11"]
        c["33"] = p["33"]
        c["44"] = c["55"] = p["44"]
        c["66"] = p["66"]
        c["12"] = p["12"]
        c["13"] = c["23"] = p["13"]
        if system == "tetragonal7":
            c["16"] = p["16"]
            c["26"] = -p["16"]
    elif system in ("hexagonal", "trigonal6", "trigonal7"):
        c["11"] = c["22"] = p["11"]
        c["33"] = p["33"]
        c["44"] = c["55"] = p["44"]
        c["12"] = p["12"]
        c["13"] = c["23"] = p["13"]
        c["66"] = (p["11"] - p["12"]) / 2
        if system in ("trigonal6", "trigonal7"):
            c["14"] = p["14"]
            c["24"] = -p["14"]
            c["56"] = p["14"]
        if system == "trigonal7":
            c["15"] = p["15"]
            c["25"] = -p["15"]
            c["46"] = -p["15"]
    elif system == "cubic":
        c["11"] = c["22"] = c["33"] = p["11"]
        c["12"] = c["13"] = c["23"] = p["12"]
        c["44"] = c["55"] = c["66"] = p["44"]
    else:
        raise ValueError(system)
    return c


INDEP = {
    "triclinic": ALL21,
    "monoclinic": ORTHO9 + ["15", "25", "35", "46"],
    "orthorhombic": ORTHO9,
    "tetragonal7": ["11", "33", "44", "66", "12", "13", "16"],
    "tetragonal6": ["11", "33", "44", "66", "12", "13"],
    "trigonal7": ["11", "33", "44", "12", "13", "14", "15"],
    "trigonal6": ["11", "33", "44", "12", "13", "14"],
    "hexagonal": ["11", "33", "44", "12", "13"],
    "cubic": ["11", "12", "44"],
}

# Sufficient-subset rule, hand written per system: every group must be hit; for
# the systems with c66=(c11-c12)/2 at least two of the three families
# {c11,c22}, {c12}, {c66} must be hit.
GROUPS = {
    "triclinic": [[k] for k in ALL21],
    "monoclinic": [[k] for k in INDEP["monoclinic"]],
    "orthorhombic": [[k] for k in ORTHO9],
    "tetragonal7": [["11", "22"], ["33"], ["44", "55"], ["66"], ["12"], ["13", "23"], ["16", "26"]],
    "tetragonal6": [["11", "22"], ["33"], ["44", "55"], ["66"], ["12"], ["13", "23"]],
    "trigonal7": [["33"], ["44", "55"], ["13", "23"], ["14", "24", "56"], ["15", "25", "46"]],
    "trigonal6": [["33"], ["44", "55"], ["13", "23"], ["14", "24", "56"]],
    "hexagonal": [["33"], ["44", "55"], ["13", "23"]],
    "cubic": [["11", "22", "33"], ["12", "13", "23"], ["44", "55", "66"]],
}
TRIPLE = {"trigonal7", "trigonal6", "hexagonal"}
TRIPLE_FAMILIES = [["11", "22"], ["12"], ["66"]]
SYSTEMS = list(INDEP)

INTERPOLATORS = ["lsq_poly", "lagrange", "spline", "krogh", "pchip", "hermite", "akima"]


def nonzero_keys(system):
    p = {k: 1.0 + 0.01 * i for i, k in enumerate(INDEP[system])}
    if "12" in p:
        p["12"] = 0.3
    return [k for k, v in _expand(system, p).items() if v != 0.0]


def tensor6(c):
    m = numpy.zeros((6, 6))
    for k, v in c.items():
        i, j = int(k[0]) - 1, int(k[1]) - 1
        m[i, j] = m[j, i] = v
    return m


# ---------------------------------------------------------------------------
# small helpers
# ---------------------------------------------------------------------------

def _uni(rng, a, b):
    return a + (b - a) * rng.random()


def _sig(x, n=10):
    """round to n significant digits (what the writer prints); n >= 17 keeps the double as it is."""
    if n >= 17:
        return float(x)
    return float(f"{x:.{n - 1}e}")


def bm3_energy(v, v0, b0, bp, e0):
    x = (v0 / v) ** (2.0 / 3.0)
    return e0 + 9.0 * v0 * b0 / 16.0 * ((x - 1) ** 3 * bp + (x - 1) ** 2 * (6 - 4 * x))


def bm3_pressure(v, v0, b0, bp):
    x = (v0 / v) ** (1.0 / 3.0)
    return 1.5 * b0 * (x ** 7 - x ** 5) * (1 + 0.75 * (bp - 4) * (x ** 2 - 1))


# ---------------------------------------------------------------------------
# generation
# ---------------------------------------------------------------------------

def gen_phonon(rng, tier, na=None):
    big = tier == "thorough"
    nv = rng.randint(5, 9) if not big else rng.randint(4, 12)
    nq = rng.randint(1, 4) if not big else rng.randint(1, 8)
    if na is None:
        na = rng.randint(1, 4) if not big else rng.randint(1, 10)
    np_ = 3 * na
    nm = rng.randint(1, 4)
    digits = 17 if rng.random() < 0.25 else 10     # 17: full-precision tokens (repr), as a dump from another program would have
    v_atom = _uni(rng, 55.0, 110.0)
    v0 = na * v_atom
    hi = _uni(rng, 1.02, 1.08)
    lo = _uni(rng, 0.72, 0.85)
    rel = []
    for i in range(nv):
        t = i / (nv - 1)
        r = hi + (lo - hi) * t
        if 0 < i < nv - 1:
            r += _uni(rng, -0.2, 0.2) * (hi - lo) / (nv - 1)
        rel.append(r)
    volumes = [_sig(v0 * r, digits) for r in rel]
    b0 = _uni(rng, 80.0, 350.0) / RY_B3_TO_GPA
    bp = _uni(rng, 3.5, 5.0)
    e0 = -_uni(rng, 50.0, 900.0)
    energies = [_sig(bm3_energy(v, v0, b0, bp, e0), max(12, digits)) for v in volumes]
    pressures = [_sig(bm3_pressure(v, v0, b0, bp) * RY_B3_TO_GPA * 10, 8 if digits == 10 else 17) for v in volumes]
    gamma_first = rng.random() < 0.85
    qcoords = [[0.0, 0.0, 0.0]] + [[round(_uni(rng, 0, 0.5), 4) for _ in range(3)] for _ in range(nq - 1)]
    if not gamma_first:      # a shifted mesh that does not contain the origin: every mode of every q-point is an ordinary positive frequency
        qcoords[0] = [round(_uni(rng, 0.05, 0.5), 4) for _ in range(3)]
    if rng.random() < 0.5:
        weights = [float(rng.randint(1, 12)) for _ in range(nq)]
    else:
        weights = [_sig(_uni(rng, 0.2, 9.0), 6) for _ in range(nq)]
    small_gamma = rng.random() < 0.2
    freqs = [[[0.0] * np_ for _ in range(nq)] for _ in range(nv)]
    modes = []
    for q in range(nq):
        for m in range(np_):
            if q == 0 and m < 3 and gamma_first:
                if small_gamma:
                    for iv in range(nv):
                        freqs[iv][q][m] = -round(_uni(rng, 0.0, 0.9), 4)
                continue
            w0 = math.exp(_uni(rng, math.log(30.0), math.log(1500.0)))
            g = _uni(rng, 0.3, 2.5)
            b = _uni(rng, -0.3, 0.3)
            modes.append([q, m, w0, g, b])
            for iv, v in enumerate(volumes):
                x = math.log(v / v0)
                freqs[iv][q][m] = _sig(w0 * math.exp(-g * x + b * x * x), digits)
    return {
        "digits": digits, "gamma_first": gamma_first,
        "nv": nv, "nq": nq, "np": np_, "nm": nm, "na": na,
        "v0": v0, "b0": b0, "bp": bp, "e0": e0,
        "volumes": volumes, "energies": energies, "pressures": pressures,
        "qcoords": qcoords, "weights": weights, "freqs": freqs,
        "comment_lines": rng.randint(1, 4),
    }


def _draw_params(rng, system, integer):
    mu = _uni(rng, 40.0, 200.0)
    lam = _uni(rng, 40.0, 250.0)
    iso = {"11": lam + 2 * mu, "22": lam + 2 * mu, "33": lam + 2 * mu,
           "12": lam, "13": lam, "23": lam, "44": mu, "55": mu, "66": mu}
    p = {}
    for k in INDEP[system]:
        if k in iso:
            p[k] = iso[k] * (1 + _uni(rng, -0.15, 0.15))
        else:
            p[k] = rng.choice([-1, 1]) * _uni(rng, 2.0, max(3.0, 0.12 * mu))
    # volume dependence p(V) = p0 (1 + a x + b x^2), x = V0/V - 1
    dep = {}
    for k in INDEP[system]:
        if k in iso:
            dep[k] = [_uni(rng, 2.0, 5.0), _uni(rng, 0.0, 4.0)]
        else:
            dep[k] = [_uni(rng, -2.0, 3.0), _uni(rng, -1.0, 1.0)]
    return p, dep


def gen_static(rng, tier, phonon, system=None, force_lattice=None, cli_spelling=False, noise=False):
    big = tier == "thorough"
    if system is None:
        system = rng.choice(SYSTEMS)
    integer = rng.random() < 0.15
    digits = 17 if rng.random() < 0.25 else 10
    same_volumes = rng.random() < 0.6
    if same_volumes:
        volumes = list(phonon["volumes"])
    else:
        n = rng.randint(4, 8 if not big else 10)
        hi, lo = phonon["volumes"][0], phonon["volumes"][-1]
        volumes = [_sig(hi * (1 + _uni(rng, -0.01, 0.01)) + (lo - hi) * i / (n - 1), digits) for i in range(n)]
    v0 = phonon["v0"]
    for _attempt in range(50):
        p0, dep = _draw_params(rng, system, integer)
        rows = []
        ok = True
        for v in volumes:
            x = v0 / v - 1.0
            p = {k: p0[k] * (1 + dep[k][0] * x + dep[k][1] * x * x) for k in p0}
            if integer:
                p = {k: float(2 * round(val / 2.0)) for k, val in p.items()}
                p = {k: (val if val != 0 or k in ORTHO9 else 2.0) for k, val in p.items()}
            c = _expand(system, p)
            if numpy.linalg.eigvalsh(tensor6(c)).min() <= 1.0:
                ok = False
                break
            rows.append(c)
        if ok:
            break
    else:
        raise RuntimeError("could not draw a positive-definite tensor")
    nz = nonzero_keys(system)
    zeros = [k for k in ALL21 if k not in nz]
    # supplied subset
    if system == "triclinic":
        supplied = list(ORTHO9) + [k for k in ALL21 if k not in ORTHO9 and rng.random() < 0.5]
    else:
        supplied = [rng.choice(g) for g in GROUPS[system]]
        if system in TRIPLE:
            fams = list(TRIPLE_FAMILIES)
            rng.shuffle(fams)
            for fam in fams[: rng.choice([2, 2, 3])]:
                supplied.append(rng.choice(fam))
        for k in nz:
            if k not in supplied and rng.random() < 0.3:
                supplied.append(k)
        for k in zeros:
            if rng.random() < 0.03:
                supplied.append(k)
    order = list(dict.fromkeys(supplied))
    rng.shuffle(order)
    if cli_spelling:
        prefix = rng.choice(["c", "C"])
    else:
        prefix = rng.choice(["c", "c", "C", "c_", "C_", "cij"])
    std_spelling = (not cli_spelling) and rng.random() < 0.1
    swap_spelling = (not cli_spelling) and (not std_spelling) and rng.random() < 0.2     # c21 for c12: the larger subscript first
    names = []
    for k in order:
        if swap_spelling and k[0] != k[1] and rng.random() < 0.6:
            names.append(prefix + k[1] + k[0])
        elif std_spelling:
            from_voigt = {1: "11", 2: "22", 3: "33", 4: "23", 5: "13", 6: "12"}
            names.append(prefix + from_voigt[int(k[0])] + from_voigt[int(k[1])])
        else:
            names.append(prefix + k)
    values = [[(_sig(r[k], digits) if not integer else r[k]) for k in order] for r in rows]
    noisy = []
    if noise and not integer and system != "triclinic":
        # redundant supplied members of one relation class disagree a little, well inside the residual tolerance (sum of squares 0.1):
        # the filled table carries the least-squares reconciliation
        cands = [g for g in GROUPS[system] if len([k for k in g if k in order]) >= 2]
        rng.shuffle(cands)
        for g in cands[:2]:
            k = rng.choice([x for x in g if x in order])
            d = rng.choice([-1, 1]) * _sig(_uni(rng, 0.02, 0.08), 3)
            j = order.index(k)
            for row in values:
                row[j] = _sig(row[j] + d, digits)
            noisy.append([k, d])
    int_cols = [bool(integer and rng.random() < 0.6) for _ in order]
    # lattice block
    has_lattice = (rng.random() < 0.5) if force_lattice is None else force_lattice
    lattice = None
    expo = None
    if has_lattice:
        if system == "cubic":
            expo = [1 / 3, 1 / 3, 1 / 3]
        elif system in ("hexagonal", "trigonal6", "trigonal7", "tetragonal6", "tetragonal7"):
            a = _uni(rng, 0.22, 0.39)
            expo = [a, a, 1 - 2 * a]
        else:
            a = _uni(rng, 0.2, 0.4)
            b = _uni(rng, 0.2, 0.4)
            expo = [a, b, 1 - a - b]
        base = [_uni(rng, 4.0, 12.0) for _ in range(3)]
        if system in ("cubic", "hexagonal", "trigonal6", "trigonal7", "tetragonal6", "tetragonal7"):
            base[1] = base[0]
        if system == "cubic":
            base[2] = base[0]
        lattice = [[_sig(base[i] * (v / v0) ** expo[i], digits) for i in range(3)] for v in volumes]
    return {
        "system": system, "integer": integer, "noisy": noisy, "digits": max(digits, phonon.get("digits", 10)) if same_volumes else digits,
        "vref": _sig(v0, digits), "cellmass": _sig(phonon["na"] * _uni(rng, 12.0, 40.0), 7),
        "volumes": volumes, "keys": order, "names": names, "values": values,
        "int_cols": int_cols, "lattice": lattice, "lattice_expo": expo,
        "full": [{k: r[k] for k in ALL21} for r in rows],
        "title": rng.choice(["V_0 N cellmass sample", "V_0    N     cellmass   Mg2Ca2Si4O12", "# static table", "V_0 N cellmass sample", "", "   ",
                             "\"static\" table, 2nd try", "it's a table"]),
        "pad": rng.choice([1, 2, 4]),
    }


def admissible_orders(method, nv):
    if method == "spline":
        return [k for k in (2, 3, 4, 5) if nv > k]
    if method == "lsq_poly":
        return [k for k in (1, 2, 3, 4, 5) if k < nv]
    # node-based: the order caps the number of nodes (every ceil(nv/order)-th volume is one); an order >= nv makes every volume a node,
    # which is admitted by the schema (integer >= 1) and by the code
    base = [k for k in range(2, 9) if k < nv]
    if method in ("pchip", "akima", "hermite"):
        return base + [nv, nv + 3]
    return base + ([nv, nv + 1] if nv <= 6 else [])    # global polynomials through more than 6 nodes are documented as unstable: not asked for


NICE_DP = [0.1, 0.125, 0.2, 0.25, 0.5, 1.0, 1.25, 2.0, 2.5, 5.0, 10.0]
DT_CHOICES = [0.5, 1.0, 2.0, 5.0, 10.0, 25.0, 37.5, 50.0, 100.0, 150.0, 250.0, 500.0]


def gen_settings(rng, tier, phonon, static, method=None, order=None, overshoot=False,
                 dt=None, full_output=False, low_tmin=False):
    big = tier == "thorough"
    nv = phonon["nv"]
    if method is None:
        method = rng.choice(["lsq_poly", "lsq_poly", "spline", "spline", "lagrange", "krogh", "pchip"])
    orders = admissible_orders(method, nv)
    if order is None:
        order = rng.choice(orders)
    qs = {}
    t_min = rng.choice([0, 0, 50, 300])
    if low_tmin:
        # arbitrarily low T > 0 as the first grid row; the tiny values sit below the absolute tolerances a
        # "close to zero" test would use (numpy.isclose: 1e-8), so two sites that disagree on what counts as
        # T = 0 show (seeded change c12-q-isclose-vs-exact-zero)
        t_min = rng.choice([0.01, 0.5, 1, 5, 1e-3, 1e-6, 1e-9, 1e-12])
    if dt is None:
        dt = rng.choice(DT_CHOICES)
    nt = rng.randint(4, 12 if big else 9)
    ratio = rng.choice([None, 1.1, 1.15, 1.2, 1.25, 1.3])
    eff_ratio = 1.2 if ratio is None else ratio
    vmin = phonon["volumes"][-1] / eff_ratio
    pmax_static = bm3_pressure(vmin, phonon["v0"], phonon["b0"], phonon["bp"]) * RY_B3_TO_GPA
    p_min = rng.choice([0, 0, 0, 2, 5, 10, 0.25, 2.5, 1.125])
    ntv = rng.randint(6, 20 if big else 14)
    budget = 0.75 * pmax_static - p_min
    if overshoot:
        # deliberately above anything reachable at any temperature
        dp = max(d for d in NICE_DP)
        dp = max(dp, 4.0 * pmax_static / (ntv - 1))
        dp = float(math.ceil(dp))
    else:
        cands = [d for d in NICE_DP if d * (ntv - 1) <= budget]
        if not cands:
            p_min = 0
            budget = 0.75 * pmax_static
            cands = [d for d in NICE_DP if d * (ntv - 1) <= budget] or [0.1]
        dp = rng.choice(cands[-3:]) if rng.random() < 0.6 else rng.choice(cands)
    qs["T_MIN"] = t_min
    qs["NT"] = nt
    qs["DT"] = dt if dt != int(dt) or rng.random() < 0.3 else int(dt)
    qs["P_MIN"] = p_min if p_min != int(p_min) else int(p_min)
    qs["NTV"] = ntv
    qs["DELTA_P"] = dp if dp != int(dp) or rng.random() < 0.3 else int(dp)
    if rng.random() < 0.5:
        qs["DT_SAMPLE"] = qs["DT"] * rng.choice([1, 1, 2])
    if rng.random() < 0.5:
        qs["DELTA_P_SAMPLE"] = qs["DELTA_P"] * rng.choice([1, 1, 2, 5])
    if ratio is not None:
        qs["volume_ratio"] = ratio
    if rng.random() < 0.5:
        qs["order"] = 3
    if rng.random() < 0.5:
        qs["static_only"] = False
    # a key whose value is the documented default may simply be left out of the settings file
    for key, default in (("T_MIN", 0), ("P_MIN", 0), ("DELTA_P", 1), ("DT", 100)):
        if key in qs and qs[key] == default and type(qs[key]) is int and rng.random() < 0.4:
            del qs[key]
            if key == "DELTA_P":
                qs.pop("DELTA_P_SAMPLE", None)
            if key == "DT":
                qs.pop("DT_SAMPLE", None)
    keys = list(qs)
    rng.shuffle(keys)
    qs = {k: qs[k] for k in keys}
    mg = {"interpolator": method}
    if not (order == 3 and rng.random() < 0.3):  # the packaged default order is 3
        mg["order"] = order
    es = {"mode_gamma": mg}
    system = static["system"]
    sym = {}
    if system != "triclinic" or rng.random() < 0.3:
        sym["system"] = system
        if rng.random() < 0.15:
            sym["drop_atol"] = rng.choice([1.0e-8, 1.0e-6])
        if rng.random() < 0.15:
            sym["residual_atol"] = rng.choice([0.1, 0.05])
        if rng.random() < 0.1:
            sym["ignore_residuals"] = False
        es["symmetry"] = sym
    cfg = {
        "qha": {"input": rng.choice(["input01", "input01", "phonon.dat", "freqs.in"]), "settings": qs},
        "elast": {"input": rng.choice(["elast.dat", "input02", "static.txt"]), "settings": es},
    }
    out = gen_output(rng, full_output)
    if out is not None:
        cfg["output"] = out
    if rng.random() < 0.5:
        cfg = {k: cfg[k] for k in rng.sample(list(cfg), len(cfg))}
    return cfg


def load_rules():
    here = os.path.dirname(os.path.abspath(__file__))
    with open(os.path.join(here, "golden", "writer_rules.json")) as fp:
        return json.load(fp)


_RULES = None


def rules():
    global _RULES
    if _RULES is None:
        _RULES = load_rules()
    return _RULES


UNIT_OVERRIDES = {
    "ry/bohr3": ["kbar", "Mbar", "Pa", "GPa"],
    "km/s": ["m/s", "km/s"],
    "bohr3": ["nm^3", "bohr^3", "angstrom^3"],
}


def gen_output(rng, full=False):
    """user `output` section, or None to leave it to the packaged default."""
    if not full and rng.random() < 0.2:
        return None
    out = {}
    bases = [["pressure_base", "tp"], ["volume_base", "tv"]]
    for name, base in bases:
        if not full and rng.random() < 0.25:
            continue
        entries = []
        used_files = set()
        for rule in rules()["rules"]:
            if base not in rule["bases"]:
                continue
            if not full and rng.random() < 0.45:
                continue
            kw = rng.choice(rule["keywords"])
            entry = kw
            r = rng.random()
            if r < 0.12 and rule["kind"] == "value":
                # names with literal braces are valid file names and must be honoured verbatim (a writer that passes the
                # override through str.format would raise or rename: seeded change c15-fname-override-str-format)
                fname = rng.choice(["custom_%s_%s.txt", "my_%s_%s.dat", "out-%s-%s", "custom_%s_%s.txt", "my_%s_%s.dat", "out-%s-%s",
                                    "run{1}_%s_%s.txt", "{%s}_%s.dat", "x_{{%s}}_%s.txt", "{base}_%s_%s.txt"]) % (rule["attr"][:6], base)
                if fname not in used_files:
                    entry = {"keyword": kw, "fname": fname}
                    used_files.add(fname)
            elif r < 0.24:
                entry = {"keyword": kw, "unit": rng.choice(UNIT_OVERRIDES[rule["internal"]])}
            entries.append(entry)
            if not full and rule["kind"] == "ij" and rng.random() < 0.15:
                # a second alias of the same keyword: must produce identical content
                entries.append(rng.choice(rule["keywords"]))
        rng.shuffle(entries)
        out[name] = entries
    if len(out) == 2 and rng.random() < 0.1:
        # one explicit file name used under both bases: the documented order of write_output (pressure base, then volume base) decides
        both = [r for r in rules()["rules"] if "tp" in r["bases"] and "tv" in r["bases"] and r["kind"] == "value"]
        if both:
            r = rng.choice(both)
            for name in list(out):
                out[name].append({"keyword": rng.choice(r["keywords"]), "fname": "shared_%s.txt" % r["attr"][:6]})
    if len(out) == 2 and not full and rng.random() < 0.08:
        # the same list under both bases (in YAML spelled with an anchor: one list OBJECT after loading)
        both_kw = {kw for r in rules()["rules"] if "tp" in r["bases"] and "tv" in r["bases"] for kw in r["keywords"]}
        lst = [e for e in out["pressure_base"] if (e if isinstance(e, str) else e["keyword"]) in both_kw and not (isinstance(e, dict) and e.get("fname"))]
        if lst:
            out["pressure_base"] = lst
            out["volume_base"] = json.loads(json.dumps(lst))
    if rng.random() < 0.5:
        out = {k: out[k] for k in reversed(list(out))}
    return out


def gen_world(rng, tier, name, **kw):
    """One client's world.  kw may pin system / method / order / dt / overshoot /
    force_lattice / cli_spelling / full_output / na."""
    phonon = gen_phonon(rng, tier, na=kw.get("na"))
    static = gen_static(rng, tier, phonon, system=kw.get("system"),
                        force_lattice=kw.get("force_lattice"),
                        cli_spelling=kw.get("cli_spelling", False), noise=kw.get("noise", False))
    settings = gen_settings(rng, tier, phonon, static, method=kw.get("method"),
                            order=kw.get("order"), overshoot=kw.get("overshoot", False),
                            dt=kw.get("dt"), full_output=kw.get("full_output", False), low_tmin=kw.get("low_tmin", False))
    spelling = rng.choice(["yaml", "yaml", "yml", "json"])
    same_dir = rng.random() < 0.5
    return {
        "name": name,
        "phonon": phonon, "static": static, "settings": settings,
        "spelling": spelling,
        "settings_name": "settings." + spelling,
        "cwd": "w" + name.lower(),
        "datadir": ("w" if same_dir else "d") + name.lower(),
        "valid": not kw.get("overshoot", False),
    }


# ---------------------------------------------------------------------------
# writers (stub of the upstream tools)
# ---------------------------------------------------------------------------

def fmt_num(x, integer_looking=False, digits=10):
    if integer_looking:
        return "%d" % int(round(x))
    if digits >= 17:
        return repr(float(x))
    s = "%.10g" % x
    if "." not in s and "e" not in s and "n" not in s and "i" not in s:
        s += ".0"
    return s


def phonon_text(ph):
    lines = []
    for i in range(ph["comment_lines"]):
        lines.append(["synthetic phonon data", " The file contains frequencies and weights at the end",
                      " Number of volumes (nv), q-vectors (nq), normal modes (np), formula units(nm):", ""][i % 4])
    lines.append("%12d%12d%12d%12d%8d" % (ph["nv"], ph["nq"], ph["np"], ph["nm"], ph["na"]))
    lines.append("")
    for iv in range(ph["nv"]):
        dg = ph.get("digits", 10)
        lines.append("P= %18s  V= %18s  E= %20s  " % (fmt_num(ph["pressures"][iv], False, dg), fmt_num(ph["volumes"][iv], False, dg),
                                                      ("%.12g" % ph["energies"][iv]) if dg < 17 else repr(float(ph["energies"][iv]))))
        for q in range(ph["nq"]):
            lines.append("   ".join("%12.7f" % c for c in ph["qcoords"][q]))
            for m in range(ph["np"]):
                lines.append("    " + fmt_num(ph["freqs"][iv][q][m], False, dg))
    lines.append("")
    lines.append("weight")
    for q in range(ph["nq"]):
        lines.append("  ".join("%12.7f" % c for c in ph["qcoords"][q]) + "  " + fmt_num(ph["weights"][q]))
    return "\n".join(lines) + "\n"


def static_text(st):
    pad = " " * st["pad"]
    dg = st.get("digits", 10)
    lines = [st["title"]]
    lines.append(f"{fmt_num(st['vref'], False, dg)}{pad}{len(st['volumes'])}{pad}{fmt_num(st['cellmass'])}")
    lines.append(pad.join(["V"] + st["names"]))
    for v, row in zip(st["volumes"], st["values"]):
        lines.append(pad.join([fmt_num(v, False, dg)] + [fmt_num(x, ic, dg) for x, ic in zip(row, st["int_cols"])]))
    if st["lattice"] is not None:
        lines.append("lattice_a lattice_b lattice_c")
        for row in st["lattice"]:
            lines.append(pad.join(fmt_num(x, False, dg) for x in row))
    return "\n".join(lines) + "\n"


def _yaml_scalar(x):
    if isinstance(x, bool):
        return "true" if x else "false"
    if isinstance(x, int):
        return str(x)
    if isinstance(x, float):
        s = repr(x)
        if "e" in s:
            m, e = s.split("e")
            if "." not in m:
                m += ".0"
            s = m + "e" + e
        return s
    if x is None:
        return "null"
    s = str(x)
    if any(ch in s for ch in "{}[]#&*!|>'\"%@`,:"):
        return json.dumps(s)        # double-quoted YAML scalar: braces etc. are plain characters of a file name, not YAML syntax
    return s


def yaml_text(obj, indent=0):
    sp = "  " * indent
    out = []
    if isinstance(obj, dict):
        for k, v in obj.items():
            if isinstance(v, (dict, list)) and len(v) > 0:
                out.append(f"{sp}{k}:")
                out.append(yaml_text(v, indent + 1))
            elif isinstance(v, (dict, list)):
                out.append(f"{sp}{k}: " + ("{}" if isinstance(v, dict) else "[]"))
            else:
                out.append(f"{sp}{k}: {_yaml_scalar(v)}")
    elif isinstance(obj, list):
        for v in obj:
            if isinstance(v, dict):
                items = list(v.items())
                k0, v0 = items[0]
                out.append(f"{sp}- {k0}: {_yaml_scalar(v0)}")
                for k, vv in items[1:]:
                    out.append(f"{sp}  {k}: {_yaml_scalar(vv)}")
            else:
                out.append(f"{sp}- {_yaml_scalar(v)}")
    return "\n".join(out)


def settings_text(world):
    if world["spelling"] == "json":
        return json.dumps(world["settings"], indent=2) + "\n"
    out = world["settings"].get("output")
    if out and len(out) == 2 and out.get("pressure_base") and out.get("pressure_base") == out.get("volume_base"):
        # spelled with a YAML anchor: both bases refer to ONE list object once loaded
        rest = {k: v for k, v in world["settings"].items() if k != "output"}
        first, second = list(out)
        return (yaml_text(rest) + "\noutput:\n  " + first + ": &outputs\n" + yaml_text(out[first], 2) + "\n  " + second + ": *outputs\n")
    return yaml_text(world["settings"]) + "\n"


def materialize(world, root):
    """write the world's files under root; returns dict relpath -> text."""
    files = {}
    dd = world["datadir"]
    files[f"{dd}/{world['settings_name']}"] = settings_text(world)
    files[f"{dd}/{world['settings']['qha']['input']}"] = phonon_text(world["phonon"])
    files[f"{dd}/{world['settings']['elast']['input']}"] = static_text(world["static"])
    for d in (world["cwd"], dd):
        os.makedirs(os.path.join(root, d), exist_ok=True)
    for rel, text in files.items():
        with open(os.path.join(root, rel), "w") as fp:
            fp.write(text)
    return files


# ---------------------------------------------------------------------------
# effective configuration as the *documentation* defines it (user over defaults)
# ---------------------------------------------------------------------------

def effective_output(world):
    out = world["settings"].get("output")
    default = rules()["default_output"]
    if out is None:
        return dict(default)
    eff = dict(out)
    for k, v in default.items():
        eff.setdefault(k, v)
    return eff


def effective_qha(world):
    eff = dict(rules()["default_qha_settings"])
    eff.update(world["settings"]["qha"]["settings"])
    return eff


# ---------------------------------------------------------------------------
# user-written relation files (C09): hand-written per system from the textbook form of the
# Laue-class invariants, *not* read from the packaged files
# ---------------------------------------------------------------------------

_ZERO_BLOCK = {
    "cubic": ["14", "15", "16", "24", "25", "26", "34", "35", "36", "45", "46", "56"],
    "hexagonal": ["14", "15", "16", "24", "25", "26", "34", "35", "36", "45", "46", "56"],
    "tetragonal6": ["14", "15", "16", "24", "25", "26", "34", "35", "36", "45", "46", "56"],
    "tetragonal7": ["14", "15", "24", "25", "34", "35", "36", "45", "46", "56"],
    "orthorhombic": ["14", "15", "16", "24", "25", "26", "34", "35", "36", "45", "46", "56"],
    "monoclinic": ["14", "16", "24", "26", "34", "36", "45", "56"],
    "trigonal6": ["16", "26", "34", "35", "36", "45", "15", "25", "46"],
    "trigonal7": ["16", "26", "34", "35", "36", "45"],
    "triclinic": [],
}
_CHAINS = {
    "cubic": [["c11", "c22", "c33"], ["c12", "c13", "c23"], ["c44", "c55", "c66"]],
    "hexagonal": [["c11", "c22"], ["c13", "c23"], ["c44", "c55"], ["c66", "(c11 - c12) / 2"]],
    "tetragonal6": [["c11", "c22"], ["c13", "c23"], ["c44", "c55"]],
    "tetragonal7": [["c11", "c22"], ["c13", "c23"], ["c44", "c55"], ["c16", "-c26"]],
    "orthorhombic": [],
    "monoclinic": [],
    "trigonal6": [["c11", "c22"], ["c13", "c23"], ["c44", "c55"], ["c66", "(c11 - c12) / 2"], ["c14", "-c24", "c56"]],
    "trigonal7": [["c11", "c22"], ["c13", "c23"], ["c44", "c55"], ["c66", "(c11 - c12) / 2"], ["c14", "-c24", "c56"], ["c15", "-c25", "-c46"]],
    "triclinic": [],
}


def relations_text(system, rng, offset=None):
    """a relations file equivalent to the packaged one for `system`: lines permuted,
    sides of equalities swapped, chains split.  offset=[a, b, d]: the plain equality between ca and cb is written  ca = cb + d  instead."""
    lines = []
    for chain in _CHAINS[system]:
        chain = list(chain)
        if offset is not None and len(chain) >= 2 and chain[0] == "c" + offset[0] and chain[1] == "c" + offset[1]:
            a, b, d = offset
            lines.append(rng.choice([f"c{a} = c{b} + {d}", f"c{a} - {d} = c{b}", f"c{b} = c{a} - {d}"]) if d >= 0 else
                         rng.choice([f"c{a} = c{b} - {-d}", f"c{b} = c{a} + {-d}"]))
            rest = chain[2:]
            for x in rest:       # further members of the chain stay tied to cb
                lines.append(f"c{b} = {x}")
            continue
        if rng.random() < 0.5:
            chain.reverse()
        if len(chain) > 2 and rng.random() < 0.5:       # split a = b = c into a = b ; b = c (or a = c)
            lines.append(f"{chain[0]} = {chain[1]}")
            lines.append(f"{rng.choice(chain[:2])} = {chain[2]}")
        else:
            lines.append(" = ".join(chain))
    zeros = ["c" + k for k in _ZERO_BLOCK[system]]
    rng.shuffle(zeros)
    while zeros:
        n = rng.randint(1, 4)
        grp, zeros = zeros[:n], zeros[n:]
        if rng.random() < 0.5:
            lines.append(" = ".join(grp + ["0"]))
        else:
            lines.append(" = ".join(["0"] + grp))
    rng.shuffle(lines)
    return "\n".join(lines) + "\n"
