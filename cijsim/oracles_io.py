"""O-round (C17): what the real readers return equals what the simulated disk holds."""
import math


def _close(a, b, rel=1e-9, abs_=1e-9):
    return abs(a - b) <= rel * max(abs(a), abs(b)) + abs_


def check_qha_input(runner, client, i, data, ph, what, rel=0.0, abs_=0.0, coord_abs=0.0):
    """data: QHAInputData returned by the real reader; ph: the numbers the simulator wrote.  Default: EXACT -- every token the
    simulator's writer prints is the shortest/rounded decimal of the double it keeps as truth, so a correctly rounded parse returns it."""
    def bad(msg):
        runner.verdict("O-round", "C17", client, i, f"{what}: {msg}")
        return False
    for name in ("nv", "nq", "np", "nm", "na"):
        if getattr(data, name) != ph[name]:
            return bad(f"count {name} = {getattr(data, name)}, file says {ph[name]}")
    if len(data.volumes) != ph["nv"]:
        return bad(f"{len(data.volumes)} volume blocks, file has {ph['nv']}")
    for iv, vol in enumerate(data.volumes):
        for nm, got, exp in (("P", vol.pressure, ph["pressures"][iv]), ("V", vol.volume, ph["volumes"][iv]), ("E", vol.energy, ph["energies"][iv])):
            if not _close(got, exp, rel, abs_):
                return bad(f"volume block {iv}: {nm} = {got!r}, file says {exp!r}")
        if len(vol.q_points) != ph["nq"]:
            return bad(f"volume block {iv}: {len(vol.q_points)} q-points, file has {ph['nq']}")
        for q, qp in enumerate(vol.q_points):
            if len(qp.coord) != 3 or any(not _close(a, b, 0, coord_abs) for a, b in zip(qp.coord, ph["qcoords"][q])):
                return bad(f"volume block {iv} q-point {q}: coordinates {qp.coord}, file says {ph['qcoords'][q]}")
            if len(qp.modes) != ph["np"]:
                return bad(f"volume block {iv} q-point {q}: {len(qp.modes)} modes, file has {ph['np']}")
            for m, (a, b) in enumerate(zip(qp.modes, ph["freqs"][iv][q])):
                if not _close(a, b, rel, abs_):
                    return bad(f"volume block {iv} q-point {q} mode {m}: {a!r}, file says {b!r}")
    if len(data.weights) != ph["nq"]:
        return bad(f"{len(data.weights)} weights, file has {ph['nq']}")
    for q, (coord, wgt) in enumerate(data.weights):
        if any(not _close(a, b, 0, coord_abs) for a, b in zip(coord, ph["qcoords"][q])):
            return bad(f"weight {q}: coordinates {coord}, file says {ph['qcoords'][q]}")
        if not _close(wgt, ph["weights"][q], rel, abs_):
            return bad(f"weight {q}: {wgt!r}, file says {ph['weights'][q]!r}")
    runner.probe("round_qha_input_checked")
    return True


def check_elast_data(runner, client, i, data, st, what, rel=0.0, abs_=0.0):
    def bad(msg):
        runner.verdict("O-round", "C17", client, i, f"{what}: {msg}")
        return False
    if not _close(data.vref, st["vref"], rel, abs_):
        return bad(f"vref {data.vref!r}, file says {st['vref']!r}")
    if data.nv != len(st["volumes"]):
        return bad(f"nv {data.nv}, file says {len(st['volumes'])}")
    if not _close(data.cellmass, st["cellmass"], rel, abs_):
        return bad(f"cellmass {data.cellmass!r}, file says {st['cellmass']!r}")
    if len(data.volumes) != len(st["volumes"]):
        return bad(f"{len(data.volumes)} rows, file has {len(st['volumes'])}")
    for r, (vol, v, row) in enumerate(zip(data.volumes, st["volumes"], st["values"])):
        if not _close(vol.volume, v, rel, abs_):
            return bad(f"row {r}: volume {vol.volume!r}, file says {v!r}")
        got = {"%d%d" % k.v: float(x) for k, x in vol.static_elastic_modulus.items() if hasattr(k, "v")}
        if sorted(got) != sorted(st["keys"]):
            return bad(f"row {r}: component keys {sorted(got)}, file has {sorted(st['keys'])}")
        for k, x in zip(st["keys"], row):
            if not _close(got[k], x, rel, abs_):
                return bad(f"row {r}: c{k} = {got[k]!r}, file says {x!r}")
    lat = st["lattice"]
    if lat is None:
        if len(data.lattice_parmeters) != 0:
            return bad(f"lattice block of {len(data.lattice_parmeters)} rows, file has none")
    else:
        if len(data.lattice_parmeters) != len(lat):
            return bad(f"lattice block of {len(data.lattice_parmeters)} rows, file has {len(lat)}")
        for r, (a, b) in enumerate(zip(data.lattice_parmeters, lat)):
            if len(a) != 3 or any(not _close(x, y, rel, abs_) for x, y in zip(a, b)):
                return bad(f"lattice row {r}: {a}, file says {b}")
    runner.probe("round_elast_data_checked")
    return True
