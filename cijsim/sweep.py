"""Fault sweep: systematic placement of ONE fault at every fault point of a few seeded base scenarios.

The random batches place faults at seeded positions; a defect that needs the fault at one particular point (the third line of the
relations file, the line between two statements of one function) is then hit only by luck.  For a handful of seeded single-client base
scenarios per run the sweep therefore first executes the scenario fault-free under a profiler (per operation: every open with its
direction, number of cij line events), then generates one variant per fault point:

  open-fail at every open;  read-fail after 1 / 2 / 4 reads at every text open for reading;  write-torn keeping 0 %, 50 %, 100 % at every
  open for writing;  list-fail for the commands that glob;  cancel / alloc-fail (alternating) at the first execution of every distinct
  cij source line the operation runs, at a later execution of half of them, and on a geometric ladder of positions.

Every variant is an ordinary scenario (same worlds and program, one fault, retry -- or abandonment for read-only operations) and is
executed and judged exactly like a random one.  The base is seeded, the enumeration is of its fault points only.
"""
import copy
import random

from . import session as SS

MAX_OPS = {"C12": 5, "C14": 7, "C15": 6, "C17": 8, "C19": 9, "C09": 8}


def base_scenario(prop, seed, tier):
    sc = SS.gen_scenario(prop, seed, tier, faults_enabled=False, nclients=1, segments_p=0.0)
    c = next(iter(sc["programs"]))
    n = MAX_OPS.get(prop, 6)
    if prop == "C19":       # keep the head (construction, writes) and the tail (requests)
        p = sc["programs"][c]
        if len(p) > n:
            sc["programs"][c] = p[: n - 3] + p[-3:]
    else:
        sc["programs"][c] = sc["programs"][c][:n]
    sc["schedule"] = [c] * len(sc["programs"][c])
    used = {o.get("geotherm") for o in sc["programs"][c] if o["op"] == "cli.geotherm"}
    sc["extra_files"] = [e for e in sc.get("extra_files", []) if "geotherm_" not in e["path"] or e["path"].split("/")[-1] in used]
    sc["hash_seeds"] = {"reference": 0, "session": 0}
    sc["sweep_base"] = True
    return sc


def _ladder(n):
    out, k = [], 1
    while k <= n:
        out.append(k)
        k = max(k + 1, int(k * 1.6))
    return out


def variants(base, profile, seed, cap):
    """-> list of scenarios, each the base plus exactly one fault"""
    rng = random.Random(seed ^ 0x51F15EED)
    c = next(iter(base["programs"]))
    prog = base["programs"][c]
    faults = []
    for pr in profile:
        i, kind = pr["op"], pr["kind"]
        if pr["client"] != c or i >= len(prog) or kind.startswith("env.") or kind == "calc.drop":
            continue
        for k, mode in enumerate(pr["opens"], start=1):
            faults.append({"client": c, "op": i, "attempt": 0, "kind": "open-fail", "io_seq": k, "errno": rng.choice(["EIO", "EMFILE", "EACCES", "ENOSPC"]), "after": 1})
            if mode == "r":
                for after in (1, 2, 4):
                    faults.append({"client": c, "op": i, "attempt": 0, "kind": "read-fail", "io_seq": k, "errno": "EIO", "after": after})
            elif mode == "w":
                for keep in (0.0, 0.5, 1.0):
                    faults.append({"client": c, "op": i, "attempt": 0, "kind": "write-torn", "io_seq": k, "keep": keep})
        if kind in ("cli.extract", "cli.geotherm"):
            faults.append({"client": c, "op": i, "attempt": 0, "kind": "list-fail", "errno": "EIO"})
        n = int(pr["lines"])
        if n > 0:
            # one line fault at the FIRST execution of every distinct source line of the operation, one more at a later execution of half of them,
            # plus a geometric ladder over the whole operation
            pos = set(_ladder(n))
            for key, steps, count in pr.get("sites") or []:
                pos.add(int(steps[0]))
                if len(steps) > 1 and rng.random() < 0.5:
                    pos.add(int(rng.choice(steps[1:])))
            for j, ln in enumerate(sorted(pos)):
                faults.append({"client": c, "op": i, "attempt": 0, "kind": "cancel" if j % 2 == 0 else "alloc-fail", "line": ln})
    for f in faults:
        if prog[f["op"]]["op"] in SS.ABANDONABLE and rng.random() < 0.4:
            f["abandon"] = True
    # stratified: every I/O fault point is kept (there are a few dozen per base); the line faults, which dominate by number, fill the cap
    io = [f for f in faults if f["kind"] not in ("cancel", "alloc-fail")]
    ln = [f for f in faults if f["kind"] in ("cancel", "alloc-fail")]
    if len(io) > 3 * cap:
        io = rng.sample(io, 3 * cap)
    if len(ln) > cap:
        ln = rng.sample(ln, cap)
    faults = io + ln
    out = []
    for f in faults:
        sc = copy.deepcopy(base)
        sc["faults"] = [f]
        sc["sweep_fault"] = f"{f['kind']}@{prog[f['op']]['op']}"
        out.append(sc)
    return out


# ---------------------------------------------------------------------------
# interleaving sweep: one ping-pong switch at every distinct source line of one operation of a two-client line-level segment
# ---------------------------------------------------------------------------

def pair_base(prop, seed, tier):
    """a seeded two-client scenario reduced to ONE line-level segment (all other steps sequential, no faults); None if the seed gives none"""
    for t in range(8):
        sc = SS.gen_scenario(prop, seed + 7919 * t, tier, faults_enabled=False, nclients=2, segments_p=1.0)
        idx = next((k for k, s in enumerate(sc["schedule"]) if isinstance(s, dict)), None)
        if idx is None:
            continue
        sched = []
        for k, s in enumerate(sc["schedule"]):
            if isinstance(s, dict) and k != idx:
                sched += list(s["par"])
            else:
                sched.append(s)
        sc["schedule"] = sched
        sc["hash_seeds"] = {"reference": 0, "session": 0}
        sc["sweep_base"] = True
        return sc
    return None


def sequential_twin(base):
    """the same scenario with its segment dissolved: executed under the profiler to learn at which step each source line of each member runs"""
    sc = copy.deepcopy(base)
    sc["schedule"] = [x for s in sc["schedule"] for x in (s["par"] if isinstance(s, dict) else [s])]
    sc["_profile"] = True
    return sc


def interleavings(base, profile, seed, cap):
    rng = random.Random(seed ^ 0x1B873593)
    idx = next(k for k, s in enumerate(base["schedule"]) if isinstance(s, dict))
    par = list(base["schedule"][idx]["par"])
    # program positions of the two member operations
    pos = {}
    cnt = {c: 0 for c in base["programs"]}
    for k, s in enumerate(base["schedule"]):
        for c in (s["par"] if isinstance(s, dict) else [s]):
            if k == idx:
                pos[c] = cnt[c]
            cnt[c] += 1
    out = []
    for first in (par[0], par[1]):
        pr = next((p for p in profile if p["client"] == first and p["op"] == pos[first]), None)
        if pr is None:
            continue
        second = par[1] if first == par[0] else par[0]
        for key, steps, count in pr.get("sites") or []:
            ks = [int(steps[0])] + ([int(rng.choice(steps[1:]))] if len(steps) > 1 and rng.random() < 0.5 else [])
            for k in ks:
                out.append((first, second, k, key))
    if len(out) > cap:
        out = rng.sample(out, cap)
    res = []
    for first, second, k, key in out:
        sc = copy.deepcopy(base)
        # one ping-pong switch point: `first` runs k line events, `second` runs from its start until it is m lines into the same function, then back
        sc["schedule"][idx] = {"par": [first, second], "switches": [-k], "pp_limit": 10 ** 9}
        sc["sweep_fault"] = "pingpong@" + "+".join(sorted(base["programs"][c][pos[c]]["op"] for c in par))
        sc["sweep_site"] = key
        res.append(sc)
    return res
