"""Run one part (a solo reference or a whole session) of a scenario in a forked child.

The parent is a "zygote": an interpreter that has imported everything once.  A forked
child starts from that pristine post-import image, so "fresh process history" costs a
fork, and nothing a part does can leak into the next scenario.
"""
import faulthandler
import json
import os
import select
import signal
import sys
import time
import traceback

SHM = "/dev/shm" if os.path.isdir("/dev/shm") else "/tmp"
_counter = [0]


def preload():
    """import every cij module and everything they import lazily, so that no import
    happens (and no import lock is held) inside a simulated operation."""
    import warnings
    warnings.simplefilter("ignore")
    import numpy, scipy.interpolate, scipy.constants, pandas, sympy, yaml, json as _j, jsonschema, networkx, pint  # noqa
    from sympy.parsing.sympy_parser import parse_expr  # noqa
    import cij.core.calculator, cij.core.tasks, cij.core.full_modulus, cij.core.mode_gamma  # noqa
    import cij.core.phonon_contribution.shear, cij.core.phonon_contribution.nonshear  # noqa
    import cij.io, cij.io.traditional, cij.io.traditional.qha_input, cij.io.traditional.elast_dat  # noqa
    import cij.io.output.results_writer, cij.io.config  # noqa
    import cij.util.fill, cij.util.units, cij.util.voigt  # noqa
    import cij.cli.cij, cij.cli.main, cij.cli.fill, cij.cli.extract, cij.cli.geotherm, cij.cli.static  # noqa
    import scipy.interpolate as si
    from scipy.interpolate import RectBivariateSpline  # noqa
    import glob, fnmatch, logging, io, pathlib  # noqa
    # warm pint / sympy / pandas code paths that import lazily on first use
    from cij.util import units as _u, _to_gpa, _to_ang3
    _to_gpa(1.0), _to_ang3(1.0)
    _u.Quantity(1.0, _u.rydberg).to(_u.kg * _u.km ** 2 / _u.s ** 2)
    _u.Quantity(1.0, "rydberg / bohr ^ 3").to("GPa"), _u.Quantity(1.0, "bohr^3").to("angstrom^3"), _u.Quantity(1.0, "km/s").to("km/s")
    parse_expr("c11 - (c11 - c12) / 2")
    pandas.DataFrame({"a": [1.0]}).to_string()
    pandas.read_table(io.StringIO("a b\n1 2\n"), sep=r"\s+")


def _child(scenario, mode, client, oracles, wfd, root):
    try:
        faulthandler.dump_traceback_later(100, exit=True)
        from .ops import Runner
        r = Runner(scenario, mode, root, solo_client=client, oracles=oracles)
        res = r.run()
        data = json.dumps(res, default=_default).encode()
    except BaseException as e:  # harness failure, never a verdict
        data = json.dumps({"harness_error": f"{type(e).__name__}: {e}", "trace": traceback.format_exc()}).encode()
    try:
        with os.fdopen(wfd, "wb") as w:
            w.write(data)
    finally:
        os._exit(0)


def _default(o):
    import numpy
    if isinstance(o, (numpy.integer,)):
        return int(o)
    if isinstance(o, (numpy.floating,)):
        return float(o)
    if isinstance(o, numpy.ndarray):
        return o.tolist()
    if isinstance(o, numpy.bool_):
        return bool(o)
    return str(o)


def run_part(scenario, mode, client, oracles, timeout=150.0):
    """fork, execute, return the result dict (or {"harness_error": ...})."""
    _counter[0] += 1
    root = os.path.join(SHM, f"cijsim-{os.getpid()}-{_counter[0]}")
    rfd, wfd = os.pipe()
    sys.stdout.flush()
    pid = os.fork()
    if pid == 0:
        os.close(rfd)
        _child(scenario, mode, client, oracles, wfd, root)
        os._exit(0)
    os.close(wfd)
    chunks = []
    deadline = time.monotonic() + timeout
    timed_out = False
    while True:
        left = deadline - time.monotonic()
        if left <= 0:
            timed_out = True
            break
        r, _, _ = select.select([rfd], [], [], min(left, 5.0))
        if r:
            b = os.read(rfd, 1 << 20)
            if not b:
                break
            chunks.append(b)
    os.close(rfd)
    if timed_out:
        try:
            os.kill(pid, signal.SIGKILL)
        except OSError:
            pass
    try:
        os.waitpid(pid, 0)
    except OSError:
        pass
    from . import seams
    seams.rmtree(root)
    if timed_out:
        return {"harness_error": f"part timed out after {timeout}s"}
    data = b"".join(chunks)
    if not data:
        return {"harness_error": "child died without a result (see stderr)"}
    return json.loads(data)
