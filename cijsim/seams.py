"""Seams owned by the simulator: builtins.open / io.open, os.scandir / os.listdir,
os.stat probes, sandbox directories, per-thread stdout capture, and the fault plan.

All of it is installed from outside /repo; cij has no hook.
"""
import builtins
import errno
import hashlib
import io
import os
import random
import shutil
import sys
import threading

_real_open = builtins.open
_real_io_open = io.open
_real_scandir = os.scandir
_real_listdir = os.listdir
_real_stat = os.stat
_real_lstat = os.lstat
_real_fstat = os.fstat

EPOCH = 1_700_000_000     # simulated file timestamps: EPOCH + simulated seconds at the last write (no real clock is ever visible)


class SimCancelled(BaseException):
    """Injected cancellation (like KeyboardInterrupt in a notebook)."""


class Seams:
    """One instance per executed part (solo run or session) inside a forked child."""

    def __init__(self, root, listing_perm_seed=None, shadow_names=()):
        self.root = os.path.realpath(root)
        self.listing_perm_seed = listing_perm_seed
        self.shadow_names = set(shadow_names)
        self.events = []            # event log (for the determinism diff)
        self.seq = 0                # global event sequence number: the only notion of time
        self.ctx = threading.local()  # .client .op .attempt .io_seq .writes .faults
        self.fault_fired = []       # [(kind, client, op, attempt, where)]
        self.stats = {"opens": 0, "opens_write": 0, "scandirs": 0, "scandir_permuted": 0,
                      "shadow_stat_hits": 0, "shadow_stat_hit_names": {}}
        self.installed = False
        self.now = 0                # simulated clock in whole seconds; advances only when the scenario says so (op["tick"])
        self.mtimes = {}            # relpath -> simulated time of the last write (files) / of the last entry creation (directories)

    # -- simulated file timestamps ---------------------------------------------
    def advance(self, dt):
        if dt:
            self.now += int(dt)
            self.stats["clock_advanced"] = self.stats.get("clock_advanced", 0) + 1
            if dt > 0:
                self.stats["clock_seconds_forward"] = self.stats.get("clock_seconds_forward", 0) + int(dt)
            else:
                self.stats["clock_steps_back"] = self.stats.get("clock_steps_back", 0) + 1

    def touch(self, relp, created):
        self.mtimes[relp] = self.now
        if created:
            self.mtimes[os.path.dirname(relp) or "<ROOT>"] = self.now

    def _retime(self, r, path):
        """replace the three timestamps of a stat result of a sandbox entry by simulated ones"""
        if getattr(self.ctx, "in_seam", False):
            return r
        self.ctx.in_seam = True
        try:
            if isinstance(path, int):
                path = os.readlink(f"/proc/self/fd/{path}")
            relp = self.rel(path)
            if relp.startswith("<") and relp != "<ROOT>":
                return r
            t = EPOCH + self.mtimes.get(relp, 0)
            cls, (tup, d) = r.__reduce__()
            tup = tup[:7] + (t, t, t)
            d = dict(d, st_atime=float(t), st_mtime=float(t), st_ctime=float(t), st_atime_ns=t * 10 ** 9, st_mtime_ns=t * 10 ** 9, st_ctime_ns=t * 10 ** 9)
            self.stats["stat_retimed"] = self.stats.get("stat_retimed", 0) + 1
            return cls(tup, d)
        except Exception:
            return r
        finally:
            self.ctx.in_seam = False

    # -- context ------------------------------------------------------------
    def begin_op(self, client, op_index, attempt, faults):
        c = self.ctx
        c.client, c.op, c.attempt = client, op_index, attempt
        c.io_seq = 0
        c.writes = []
        c.reads = []
        c.open_log = []
        c.faults = {f["io_seq"]: f for f in faults if f["kind"] in ("open-fail", "read-fail", "write-torn")}
        c.list_fault = next((f for f in faults if f["kind"] == "list-fail"), None)

    def end_op(self):
        c = self.ctx
        w, r = getattr(c, "writes", []), getattr(c, "reads", [])
        c.client = None
        c.faults = {}
        c.list_fault = None
        return w, r

    def _who(self):
        c = self.ctx
        return getattr(c, "client", None), getattr(c, "op", None), getattr(c, "attempt", None)

    def rel(self, path):
        try:
            p = os.path.realpath(os.fspath(path))
        except Exception:
            return str(path)
        if p == self.root:
            return "<ROOT>"
        if p.startswith(self.root + os.sep):
            return p[len(self.root) + 1:]
        if "/site-packages/" in p:
            return "<SITE>/" + p.split("/site-packages/", 1)[1]
        repo = os.path.realpath(os.environ.get("CIJSIM_REPO", "/repo")) + "/"
        if p.startswith(repo):
            return "<REPO>/" + p[len(repo):]
        return "<OUT>/" + os.path.basename(p)

    def log(self, kind, *fields):
        self.seq += 1
        self.events.append((self.seq,) + self._who() + (kind,) + fields)
        return self.seq

    # -- open ---------------------------------------------------------------
    def _open(self, real, file, mode="r", *args, **kwargs):
        c = self.ctx
        client = getattr(c, "client", None)
        if client is None or isinstance(file, int):
            return real(file, mode, *args, **kwargs)
        relp = self.rel(file)
        if relp.startswith("<OUT>") or relp.startswith("<SITE>/numba") or "__pycache__" in relp or relp.endswith((".nbi", ".nbc", ".pyc")):
            return real(file, mode, *args, **kwargs)
        c.io_seq += 1
        seq = c.io_seq
        writing = any(ch in mode for ch in "wax+")
        self.stats["opens"] += 1
        fault = c.faults.pop(seq, None)
        fired = None
        if fault is not None:
            kind = fault["kind"]
            if kind == "open-fail":
                fired = kind
            elif kind == "read-fail" and not writing and "b" not in mode:
                fired = kind
            elif kind == "write-torn" and writing and "b" not in mode:
                fired = kind
            elif kind == "write-torn" or kind == "read-fail":
                # planned for an open of the other direction: degrade to open-fail so that
                # every planned fault fires exactly once
                fired = "open-fail"
        self.log("open", relp, mode, fired or "-")
        c.open_log.append("w" if writing else ("rb" if "b" in mode else "r"))
        if writing:
            self.stats["opens_write"] += 1
            c.writes.append(relp)
            self.touch(relp, created=not os.path.lexists(file))
        else:
            c.reads.append(relp)
        if fired == "open-fail":
            self.fault_fired.append(("open-fail", client, c.op, c.attempt, relp))
            code = fault.get("errno", "EIO")
            raise OSError(getattr(errno, code), os.strerror(getattr(errno, code)), "<ROOT>/" + relp if not relp.startswith("<") else relp)
        fobj = real(file, mode, *args, **kwargs)
        if fired == "read-fail":
            self.fault_fired.append(("read-fail", client, c.op, c.attempt, relp))
            return FaultyReader(fobj, fault.get("after", 1))
        if fired == "write-torn":
            self.fault_fired.append(("write-torn", client, c.op, c.attempt, relp))
            return TornWriter(fobj, fault.get("keep", 0.5))
        return fobj

    # -- directory listing ---------------------------------------------------
    def _scandir(self, path=None):
        lf = getattr(self.ctx, "list_fault", None)
        if lf is not None and getattr(self.ctx, "client", None) is not None:
            self.ctx.list_fault = None
            relp = self.rel(path if path is not None else ".")
            self.log("scandir", relp, "list-fail")
            self.fault_fired.append(("list-fail", self.ctx.client, self.ctx.op, self.ctx.attempt, relp))
            code = lf.get("errno", "EIO")
            raise OSError(getattr(errno, code), os.strerror(getattr(errno, code)) + " (injected)", relp)
        it = _real_scandir(path) if path is not None else _real_scandir()
        entries = sorted(it, key=lambda e: e.name)
        it.close()
        self.stats["scandirs"] += 1
        if self.listing_perm_seed is not None and len(entries) > 1:
            rng = random.Random(self.listing_perm_seed * 1000003 + len(entries) * 7919 + sum(map(ord, entries[0].name)))
            before = [e.name for e in entries]
            rng.shuffle(entries)
            if [e.name for e in entries] != before:
                self.stats["scandir_permuted"] += 1
        if getattr(self.ctx, "client", None) is not None:
            self.log("scandir", self.rel(path if path is not None else "."), len(entries))
        return _ScandirResult(entries)

    def _listdir(self, path=None):
        names = sorted(_real_listdir(path) if path is not None else _real_listdir())
        if self.listing_perm_seed is not None and len(names) > 1:
            rng = random.Random(self.listing_perm_seed * 1000003 + len(names) * 7919 + sum(map(ord, names[0])))
            rng.shuffle(names)
        return names

    def _stat(self, path, *a, **k):
        try:
            if self.shadow_names and getattr(self.ctx, "client", None) is not None and isinstance(path, (str, os.PathLike)):
                p = os.fspath(path)
                if isinstance(p, str) and not os.path.isabs(p) and p.rstrip("/") in self.shadow_names:
                    self.stats["shadow_stat_hits"] += 1
                    d = self.stats["shadow_stat_hit_names"]
                    d[p] = d.get(p, 0) + 1
        except Exception:
            pass
        r = _real_stat(path, *a, **k)
        if getattr(self.ctx, "client", None) is not None:
            return self._retime(r, path)
        return r

    def _lstat(self, path, *a, **k):
        r = _real_lstat(path, *a, **k)
        if getattr(self.ctx, "client", None) is not None:
            return self._retime(r, path)
        return r

    def _fstat(self, fd):
        r = _real_fstat(fd)
        if getattr(self.ctx, "client", None) is not None:
            return self._retime(r, fd)
        return r

    # -- install / uninstall ---------------------------------------------------
    def install(self):
        s = self

        def sim_open(file, mode="r", *args, **kwargs):
            return s._open(_real_open, file, mode, *args, **kwargs)

        builtins.open = sim_open
        io.open = sim_open
        os.scandir = self._scandir
        os.listdir = self._listdir
        os.stat = self._stat
        os.lstat = self._lstat
        os.fstat = self._fstat
        self.installed = True

    def uninstall(self):
        builtins.open = _real_open
        io.open = _real_io_open
        os.scandir = _real_scandir
        os.listdir = _real_listdir
        os.stat = _real_stat
        os.lstat = _real_lstat
        os.fstat = _real_fstat
        self.installed = False

    def event_digest(self):
        h = hashlib.sha256()
        for e in self.events:
            h.update(repr(e).encode())
            h.update(b"\n")
        return h.hexdigest()


class _ScandirResult:
    """iterator + context manager + close(), the three ways glob/os.walk use scandir."""

    def __init__(self, entries):
        self._it = iter(entries)

    def __iter__(self):
        return self

    def __next__(self):
        return next(self._it)

    def __enter__(self):
        return self

    def __exit__(self, *a):
        return False

    def close(self):
        pass


class FaultyReader(io.TextIOBase):
    """text reader that fails with EIO on its n-th read call."""

    def __init__(self, fobj, after):
        self._f = fobj
        self._n = 0
        self._after = max(1, int(after))

    def _tick(self):
        self._n += 1
        if self._n >= self._after:
            raise OSError(errno.EIO, "Input/output error (injected)")

    def read(self, *a):
        self._tick()
        return self._f.read(*a)

    def readline(self, *a):
        self._tick()
        return self._f.readline(*a)

    def __next__(self):
        self._tick()
        line = self._f.readline()
        if not line:
            raise StopIteration
        return line

    def __iter__(self):
        return self

    def readable(self):
        return True

    def seekable(self):
        return False

    def close(self):
        try:
            self._f.close()
        finally:
            super().close()

    @property
    def name(self):
        return self._f.name

    @property
    def encoding(self):
        return self._f.encoding


class TornWriter(io.TextIOBase):
    """text writer that persists a prefix of the first write, then fails with ENOSPC."""

    def __init__(self, fobj, keep):
        self._f = fobj
        self._keep = keep
        self._done = False

    def write(self, s):
        if self._done:
            raise OSError(errno.ENOSPC, "No space left on device (injected)")
        n = int(len(s) * self._keep)
        self._f.write(s[:n])
        self._f.flush()
        self._done = True
        raise OSError(errno.ENOSPC, "No space left on device (injected)")

    def writelines(self, lines):
        self.write("".join(lines))

    def writable(self):
        return True

    def close(self):
        try:
            self._f.close()
        finally:
            super().close()

    @property
    def name(self):
        return self._f.name


# ---------------------------------------------------------------------------
# per-thread stdout capture
# ---------------------------------------------------------------------------

class ThreadStdout(io.TextIOBase):
    def __init__(self, fallback):
        self._local = threading.local()
        self._fallback = fallback

    def start(self):
        self._local.buf = io.StringIO()

    def stop(self):
        b = getattr(self._local, "buf", None)
        self._local.buf = None
        return b.getvalue() if b is not None else ""

    def write(self, s):
        b = getattr(self._local, "buf", None)
        if b is not None:
            return b.write(s)
        return len(s)

    def flush(self):
        pass

    def writable(self):
        return True

    def isatty(self):
        return False

    @property
    def encoding(self):
        return "utf-8"


# ---------------------------------------------------------------------------
# sandbox tree helpers
# ---------------------------------------------------------------------------

def snapshot_tree(root):
    """relpath -> sha256 of every regular file below root (real os functions)."""
    snap = {}
    for dirpath, dirnames, filenames in _walk(root):
        for fn in filenames:
            p = os.path.join(dirpath, fn)
            try:
                with _real_open(p, "rb") as fp:
                    snap[os.path.relpath(p, root)] = hashlib.sha256(fp.read()).hexdigest()
            except OSError:
                snap[os.path.relpath(p, root)] = "<unreadable>"
    return snap


def _walk(top):
    stack = [top]
    while stack:
        d = stack.pop()
        try:
            with _real_scandir(d) as it:
                ents = sorted(it, key=lambda e: e.name)
        except OSError:
            continue
        dirs = [e.name for e in ents if e.is_dir(follow_symlinks=False)]
        files = [e.name for e in ents if not e.is_dir(follow_symlinks=False)]
        yield d, dirs, files
        for n in reversed(dirs):
            stack.append(os.path.join(d, n))


def read_bytes(path):
    with _real_open(path, "rb") as fp:
        return fp.read()


def write_text(path, text):
    os.makedirs(os.path.dirname(path), exist_ok=True)
    with _real_open(path, "w") as fp:
        fp.write(text)


def rmtree(path):
    shutil.rmtree(path, ignore_errors=True)
