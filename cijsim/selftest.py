"""./selftest determinism [N]

Runs N scenario seeds of every sessionsim profile (and N/4 tasksim worlds) three times:
  A: 16 workers, PYTHONHASHSEED=0
  B:  4 workers, PYTHONHASHSEED=0          (other processes, other worker count)
  C:  8 workers, PYTHONHASHSEED=987654321  (fresh interpreters, other hash seed)
and diffs the event logs (scenario digest, every seam call with its sequence number, every
switch point, every observation digest) and the observation lists.  A vs B must be identical
(harness determinism); A vs C must be identical too (generator and simulator independent of the
hash seed; a difference in *observations* there would be a C14 violation, a difference only in
the event log is reported separately).
exit 0: all identical; exit 2 otherwise.
"""
import json
import os
import sys
import time

sys.path.insert(0, os.path.dirname(os.path.dirname(os.path.abspath(__file__))))

from cijsim import session as SS  # noqa
from cijsim.check import derive_seed  # noqa
from cijsim.pool import Pool  # noqa
from cijsim import tasksim  # noqa


def run(layout, jobs, tag):
    log_dir = os.path.join("/dev/shm", f"cijsim-selftest-{os.getpid()}-{tag}")
    pool = Pool(layout, log_dir)
    try:
        js = [dict(j, hash=layout[i % len(layout)]) for i, j in enumerate(jobs)]
        return pool.run_jobs(js)
    finally:
        pool.close()
        import shutil
        shutil.rmtree(log_dir, ignore_errors=True)


def main(argv):
    os.environ["CIJSIM_EVENTS"] = "1"
    n = int(argv[2]) if len(argv) > 2 else 200
    base = int(os.environ.get("VERIF_SEED", "777"))
    props = ["C14", "C12", "C15", "C19", "C17", "C09"]
    per = max(4, n // len(props))
    jobs = []
    for p in props:
        for j in range(per):
            s = derive_seed(base, j)
            jobs.append({"id": f"{p}:{s}", "gen": [p, s, "quick"], "mode": "session", "client": None, "oracles": SS.ORACLES[p]})
    for j in range(max(4, n // 8)):
        s = derive_seed(base, j)
        jobs.append({"id": f"C04:{s}", "engine": "tasksim", "seed": s, "tier": "quick"})
    t0 = time.time()
    A = run([0] * 16, jobs, "A")
    B = run([0] * 4, jobs, "B")
    C = run([987654321] * 8, jobs, "C")
    bad = 0
    evlog_only = 0
    benign = 0
    for j in jobs:
        a, b, c = A.get(j["id"]), B.get(j["id"]), C.get(j["id"])
        for name, x in (("A", a), ("B", b), ("C", c)):
            if x is None or "harness_error" in x:
                print(f"{j['id']}: run {name} failed: {None if x is None else x['harness_error']}")
                bad += 1
        if any(x is None or "harness_error" in x for x in (a, b, c)):
            continue
        if j.get("engine") == "tasksim":
            ka = (a["event_digest"], a["maxdev"], a["world_digest"], json.dumps(a["verdicts"], sort_keys=True))
            kb = (b["event_digest"], b["maxdev"], b["world_digest"], json.dumps(b["verdicts"], sort_keys=True))
            kc = (c["event_digest"], c["maxdev"], c["world_digest"], json.dumps(c["verdicts"], sort_keys=True))
            if ka != kb:
                print(f"{j['id']}: A and B differ (same hash seed, other process / worker count)")
                bad += 1
            if ka != kc:
                print(f"{j['id']}: A and C differ (other hash seed)")
                bad += 1
            continue
        if a["scenario_digest"] != b["scenario_digest"] or a["scenario_digest"] != c["scenario_digest"]:
            print(f"{j['id']}: scenario digest differs (generator nondeterminism)")
            bad += 1
            continue
        if a["event_digest"] != b["event_digest"] or a["obs"] != b["obs"] or a["verdicts"] != b["verdicts"]:
            print(f"{j['id']}: A and B differ (same hash seed, other process / worker count): harness nondeterminism")
            bad += 1
        if a["obs"] != c["obs"]:
            print(f"{j['id']}: observations differ under another hash seed")
            bad += 1
        elif a["event_digest"] != c["event_digest"]:
            # the k-th cij line event may fall on another line under another hash seed: cij's task parameters
            # implement __hash__/__eq__ in Python on top of Enum hashes (string hashes), so the number of __eq__
            # calls a dict lookup makes varies with the seed.  Only the *site* of a line fault / the exact
            # switch position may differ; everything else in the log must agree.
            def norm(evs):
                out = []
                for e in evs:
                    if e[4] == "linefault":
                        e = e[:7]
                    out.append(e)
                return out
            prop, seed = j["gen"][0], j["gen"][1]
            has_segment = any(isinstance(x, dict) for x in SS.gen_scenario(prop, seed, "quick")["schedule"])
            if norm(a["events"]) == norm(c["events"]):
                benign += 1
            elif has_segment:
                # line-level segment: switch points are counted in cij line events, whose number depends on the hash seed (see above), so under
                # another hash seed the two threads interleave at other places and their seam events are logged in another order.  Determinism
                # is per (scenario, hash seed) -- A vs B above -- and the OBSERVATIONS are equal across hash seeds (checked above).
                benign += 1
            else:
                print(f"{j['id']}: the event log differs under another hash seed beyond line-fault sites")
                evlog_only += 1
    print(f"determinism self-test: {len(jobs)} cases x 3 executions, {bad} mismatches, {evlog_only} event-log differences under another hash seed "
          f"({benign} more differ only in where the k-th line event fell: site of a line fault, position of a baton switch), {time.time() - t0:.0f}s")
    return 0 if bad == 0 and evlog_only == 0 else 2


if __name__ == "__main__":
    if len(sys.argv) > 1 and sys.argv[1] == "determinism":
        sys.exit(main(sys.argv))
    print(__doc__)
    sys.exit(2)
