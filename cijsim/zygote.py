"""Zygote: a fresh interpreter (its PYTHONHASHSEED chosen by the coordinator) that imports
everything once and then serves jobs read as JSON lines from stdin, forking one child per
part.  Results go back as JSON lines on the original stdout; everything else that is
printed goes to stderr.
"""
import json
import os
import sys

sys.path.insert(0, os.path.dirname(os.path.dirname(os.path.abspath(__file__))))


def main():
    out = os.fdopen(os.dup(1), "w")
    os.dup2(2, 1)
    sys.stdout = sys.stderr
    from cijsim import execpart, session
    execpart.preload()
    engines = {}
    out.write(json.dumps({"ready": True, "hashseed": os.environ.get("PYTHONHASHSEED"), "pid": os.getpid()}) + "\n")
    out.flush()
    for line in sys.stdin:
        line = line.strip()
        if not line:
            continue
        job = json.loads(line)
        if job.get("cmd") == "quit":
            break
        try:
            if job.get("engine") == "tasksim":
                from cijsim import tasksim
                res = tasksim.run_job(job)
            else:
                if "scenario" in job:
                    sc = job["scenario"]
                else:
                    prop, seed, tier = job["gen"]
                    sc = session.gen_scenario(prop, seed, tier, **job.get("gen_kw", {}))
                res = execpart.run_part(sc, job["mode"], job.get("client"), job.get("oracles", []), timeout=job.get("timeout", 150.0))
                res["scenario_digest"] = session.scenario_digest(sc)
        except BaseException as e:  # noqa
            import traceback
            res = {"harness_error": f"zygote: {type(e).__name__}: {e}", "trace": traceback.format_exc()}
        res["id"] = job.get("id")
        out.write(json.dumps(res) + "\n")
        out.flush()


if __name__ == "__main__":
    main()
