"""developer helper: run scenarios of one property in-process (one zygote), print verdicts."""
import sys, os, json, time
sys.path.insert(0, "/verif")
from cijsim import session, execpart

def main():
    prop, s0, n = sys.argv[1], int(sys.argv[2]), int(sys.argv[3])
    tier = os.environ.get("VERIF_TIER", "quick")
    t = time.time(); execpart.preload(); print("preload", round(time.time() - t, 1))
    for seed in range(s0, s0 + n):
        sc = session.gen_scenario(prop, seed, tier)
        t = time.time()
        parts = {}
        for c in sc["programs"]:
            parts[c] = execpart.run_part(sc, "solo", c, session.ORACLES[prop])
        parts["*"] = execpart.run_part(sc, "session", None, session.ORACLES[prop])
        dt = time.time() - t
        for k, r in parts.items():
            if "harness_error" in r:
                print(seed, k, "HARNESS", r["harness_error"], r.get("trace", "")[-1500:])
                continue
            for v in r["verdicts"]:
                print(seed, k, "VERDICT", json.dumps(v)[:600])
            if os.environ.get("SHOW"):
                for c, obs in r["obs"].items():
                    for o in obs:
                        print("   ", k, c, o["op"], o["kind"], o["status"], o.get("exc"), o.get("where"), len(o.get("files", [])))
        print(seed, "done %.2fs" % dt, {k: (r.get("stats", {}).get("ops"), r.get("stats", {}).get("ops_exc")) for k, r in parts.items()})
main()
