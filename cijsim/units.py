"""Unit factors computed from literal CODATA 2018 values, independently of pint and scipy."""
RYDBERG_J = 2.1798723611035e-18      # Rydberg constant times hc in J (CODATA 2018)
BOHR_M = 5.29177210903e-11           # Bohr radius in m (CODATA 2018)

RY_B3_IN_PA = RYDBERG_J / BOHR_M ** 3
BOHR3_IN_M3 = BOHR_M ** 3

# documented/override unit -> value of one *internal* unit expressed in it
FACTORS = {
    ("ry/bohr3", "GPa"): RY_B3_IN_PA / 1e9,
    ("ry/bohr3", "kbar"): RY_B3_IN_PA / 1e8,
    ("ry/bohr3", "Mbar"): RY_B3_IN_PA / 1e11,
    ("ry/bohr3", "Pa"): RY_B3_IN_PA,
    ("km/s", "km/s"): 1.0,
    ("km/s", "m/s"): 1000.0,
    ("bohr3", "angstrom3"): BOHR3_IN_M3 / 1e-30,
    ("bohr3", "angstrom^3"): BOHR3_IN_M3 / 1e-30,
    ("bohr3", "nm^3"): BOHR3_IN_M3 / 1e-27,
    ("bohr3", "bohr^3"): 1.0,
}
