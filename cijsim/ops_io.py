"""Operations around files and commands: fill, phonon-data write/read, static-table read,
extract, extract-geotherm, run-static -- and their in-run oracles (O-round, O-extract, O-twice for re-fill,
ride-along presentation clauses of C09)."""
import fnmatch
import io
import math
import os

import numpy

from . import seams as S
from . import tables as TB
from . import oracles_io
from . import world as W


def _parse_fill_output(text):
    """the fill command's stdout -> (line1, line2, columns, rows(list of list of str), rest)"""
    lines = text.split("\n")
    l1, l2 = lines[0], lines[1]
    n = int(l2.split()[1])
    cols = lines[2].split()
    rows = [ln.split() for ln in lines[3:3 + n]]
    rest = "\n".join(lines[3 + n:])
    return l1, l2, cols, rows, rest


class IOOpsMixin:

    # ------------------------------------------------------------------ fill command
    def _static_path(self, client):
        w = self.sc["worlds"][client]
        return os.path.join(self.root, w["datadir"], w["settings"]["elast"]["input"])

    def op_cli_fill(self, client, i, op):
        from cij.cli.cij import main
        src = op.get("src")
        if src is None:
            path = self._static_path(client)
            in_text = self.file_texts[os.path.relpath(path, self.root)]
        else:
            if src not in self.stored[client]:
                raise LookupError("no-stored-output")
            in_text = self.stored[client][src]
            path = os.path.join(self._cwd_of(client), f"_{client}_{src}.dat")
            S.write_text(path, in_text)     # the user saved the earlier output to a file: the driver's write, not cij's
            self.driver_writes = getattr(self, "driver_writes", set()) | {os.path.relpath(path, self.root)}
        if not op.get("abs", True):
            path = os.path.relpath(path, self._cwd_of(client))
        if op.get("float_copy"):
            # the same numbers, every column printed with a decimal point (driver's file)
            st = dict(self.sc["worlds"][client]["static"])
            st["int_cols"] = [False] * len(st["int_cols"])
            in_text = W.static_text(st)
            path = os.path.join(self._cwd_of(client), f"_float_copy_{client}_{i}.dat")
            S.write_text(path, in_text)
            self.driver_writes = getattr(self, "driver_writes", set()) | {os.path.relpath(path, self.root)}
        args = ["fill", "-s", op["system"]] + list(op.get("flags", [])) + [path]
        self._fill_results = getattr(self, "_fill_results", {})
        try:
            main(args=args, standalone_mode=False)
        except Exception as e:
            outcome = ("refused" if isinstance(e, Warning) else "error", type(e).__name__, str(e)[:60])
            self._fill_results[(client, i)] = outcome
            if not self._injected_now():
                self._fill_compare(client, i, op, outcome, {})
                if op.get("expect_ok") and src is None and not op.get("float_copy"):
                    # the generator wrote this table sufficient for, and consistent with, its system: the command must produce a table
                    if "O-round" in self.oracles:
                        self.verdict("O-round", "C17", client, i, f"`cij fill -s {op['system']}` produced no table for a sufficient, consistent static table: "
                                     f"{type(e).__name__}: {str(e)[:120]}")
                    if "O-env" in self.oracles:
                        self.verdict("O-env", "C09", client, i, f"`cij fill -s {op['system']}` refused a sufficient, consistent table: {type(e).__name__}: {str(e)[:120]}")
            raise
        out = self.stdout._local.buf.getvalue()
        try:
            _l1, _l2, cols, rows, _rest = _parse_fill_output(out)
            outcome = ("ok", {c.lower(): numpy.array([float(r[k]) for r in rows]) for k, c in enumerate(cols) if c.lower() != "v"}, cols)
        except Exception as e:
            outcome = ("error", "unparsable-output", str(e)[:60])
        self._fill_results[(client, i)] = outcome
        self._fill_compare(client, i, op, outcome, {})
        self.stored[client][op["store"]] = out
        if src is not None:
            self.probe("refill")
            if "O-twice" in self.oracles:
                self._check_refill(client, i, in_text, out)
        if "O-round" in self.oracles:
            self._check_fill_roundtrip(client, i, op, in_text, out)
        return {}

    op_cli_refill = op_cli_fill

    def _check_refill(self, client, i, before, after):
        try:
            a, b = _parse_fill_output(before), _parse_fill_output(after)
        except Exception as e:
            self.verdict("O-twice", "C14", client, i, f"output of fill (or of re-fill) is not a static table: {e}")
            return
        if a[2] != b[2]:
            self.verdict("O-twice", "C14", client, i, f"re-filling an already filled table changed its columns: {a[2]} -> {b[2]}")
            return
        if a[0] != b[0] or a[1] != b[1] or a[4].strip() != b[4].strip():
            self.verdict("O-twice", "C14", client, i, "re-filling an already filled table changed its header lines or its lattice block")
            return
        for ra, rb in zip(a[3], b[3]):
            for col, x, y in zip(a[2], ra, rb):
                fx, fy = float(x), float(y)
                if abs(fx - fy) > 2e-6 + 1e-9 * abs(fx):
                    self.verdict("O-twice", "C14", client, i, f"re-filling an already filled table moved {col}: {x} -> {y}")
                    return
        self.probe("refill_checked")

    def _check_fill_roundtrip(self, client, i, op, in_text, out):
        """C17, third clause: the fill command's output is a valid static table whose parse equals
        the symmetry-filled parse of its input; header lines, volumes and lattice block preserved."""
        from cij.io.traditional.elast_dat import read_elast_data, apply_symetry_on_elast_data
        cwd = self._cwd_of(client)
        pin, pout = os.path.join(cwd, f"_rt_in_{client}_{i}.dat"), os.path.join(cwd, f"_rt_out_{client}_{i}.dat")
        saved = self.seams.ctx.client
        self.seams.ctx.client = None
        try:
            S.write_text(pin, in_text)
            S.write_text(pout, out)
            try:
                parsed_out = read_elast_data(pout)
            except Exception as e:
                if self._injected_now() or "injected" in str(e):
                    raise           # a still-armed injected fault went off inside the oracle's own use of the reader: the fault's failure, not cij's
                self.verdict("O-round", "C17", client, i, f"output of `cij fill -s {op['system']}` cannot be read back as a static table: {type(e).__name__}: {e}")
                return
            ref = read_elast_data(pin)
            flags = {}
            if "--ignore-residuals" in op.get("flags", []):
                flags["ignore_residuals"] = True
            if "--ignore-rank" in op.get("flags", []):
                flags["ignore_rank"] = True
            apply_symetry_on_elast_data(ref, dict(system=op["system"], **flags))
        finally:
            self.seams.ctx.client = saved
            for p in (pin, pout):
                try:
                    os.remove(p)
                except OSError:
                    pass
        il, ol = in_text.split("\n"), out.split("\n")
        if il[0] != ol[0] or il[1] != ol[1]:
            self.verdict("O-round", "C17", client, i, "fill output: the two header lines are not preserved")
            return
        n = int(il[1].split()[1])
        if "\n".join(il[3 + n:]).strip() != "\n".join(ol[3 + n:]).strip():
            self.verdict("O-round", "C17", client, i, "fill output: the remainder of the file (lattice block) is not preserved")
            return
        if parsed_out.vref != ref.vref or parsed_out.nv != ref.nv or parsed_out.cellmass != ref.cellmass:
            self.verdict("O-round", "C17", client, i, "fill output: vref / nv / cellmass differ from the input's")
            return
        if len(parsed_out.volumes) != len(ref.volumes) or len(parsed_out.lattice_parmeters) != len(ref.lattice_parmeters):
            self.verdict("O-round", "C17", client, i, "fill output: number of rows or of lattice rows differs from the input's")
            return
        for r, (a, b) in enumerate(zip(parsed_out.volumes, ref.volumes)):
            if abs(a.volume - b.volume) > 1e-6 + 1e-9 * abs(b.volume):
                self.verdict("O-round", "C17", client, i, f"fill output row {r}: volume {a.volume} != {b.volume}")
                return
            ka = {"%d%d" % k.v: v for k, v in a.static_elastic_modulus.items()}
            kb = {"%d%d" % k.v: v for k, v in b.static_elastic_modulus.items()}
            if sorted(ka) != sorted(kb):
                self.verdict("O-round", "C17", client, i, f"fill output row {r}: components {sorted(ka)} != symmetry-filled parse of the input {sorted(kb)}")
                return
            for k in ka:
                if abs(ka[k] - kb[k]) > 1e-6 + 1e-9 * abs(kb[k]):
                    self.verdict("O-round", "C17", client, i, f"fill output row {r}: c{k} = {ka[k]} != symmetry-filled parse of the input {kb[k]}")
                    return
        for a, b in zip(parsed_out.lattice_parmeters, ref.lattice_parmeters):
            if tuple(a) != tuple(b):
                self.verdict("O-round", "C17", client, i, f"fill output: lattice row {a} != {b}")
                return
        self.probe("fill_roundtrip_checked")

    # ------------------------------------------------------------------ fill_cij called directly
    def _static_frame(self, client, present):
        import pandas
        st = self.sc["worlds"][client]["static"]
        names = list(st["names"])
        cols = {}
        order = present.get("perm") or list(range(len(names)))
        for j in order:
            nm = names[j]
            if st["keys"][j] in (present.get("drop_keys") or []):
                continue
            if present.get("upper"):
                nm = nm.upper()
            elif present.get("lower"):
                nm = nm.lower()
            vals = [row[j] for row in st["values"]]
            if st["keys"][j] in (present.get("perturb") or {}):
                vals = [v + present["perturb"][st["keys"][j]] for v in vals]
            if present.get("int") and all(float(v) == int(v) for v in vals):
                cols[nm] = numpy.array([int(v) for v in vals], dtype=numpy.int64)
            else:
                cols[nm] = numpy.array(vals, dtype=float)
        extra = present.get("extra_col")
        frame = {}
        if extra == "V":
            frame["V"] = numpy.array(st["volumes"], dtype=float)
        frame.update(cols)
        if extra == "tail":
            frame["note"] = numpy.arange(len(st["volumes"]), dtype=float) * 1.5
        df = pandas.DataFrame(frame)
        rows = present.get("rows")
        if rows:
            df = df.iloc[rows].reset_index(drop=True)
        idx = present.get("index")
        if idx == "shift":
            df.index = range(7, 7 + len(df))                     # e.g. a row subset of a larger table that kept its labels
        elif idx == "volumes":
            df.index = [float(v) for v in st["volumes"]][: len(df)]   # indexed by volume
        elif idx == "labels":
            df.index = ["V%d" % k for k in range(len(df))]
        elif idx == "reversed":
            df.index = list(range(len(df)))[::-1]                # rows sorted the other way round, labels kept
        off = present.get("offset")
        if off:
            # a user relation with a constant term: column a is (re)defined as column b + d, so that the table obeys  a = b + d
            a, b, d = off
            names_l = {str(c).lower(): c for c in df.columns}
            if "c" + a in names_l and "c" + b in names_l:
                df[names_l["c" + a]] = df[names_l["c" + b]].to_numpy(dtype=float) + float(d)
        return df

    @staticmethod
    def _frame_equal(df, cols, inputs):
        if [str(c) for c in df.columns] != cols:
            return f"its columns are now {[str(c) for c in df.columns]}, were {cols}"
        for c in df.columns:
            a, b = df[c].to_numpy(), inputs[c]
            if len(a) != len(b) or not numpy.array_equal(a.astype(float), b.astype(float)):
                return f"column {c} changed (max shift {float(numpy.max(numpy.abs(a.astype(float) - b.astype(float)))) if len(a) == len(b) else 'length'})"
        return None

    def op_fill_call(self, client, i, op):
        from cij.util.fill import fill_cij
        present = op.get("present", {})
        self._frames = getattr(self, "_frames", {})
        if op.get("use_frame"):
            ent = self._frames.get((client, op["use_frame"]))
            if ent is None:
                raise LookupError("no-stored-output")
            df, refused_before = ent
            if getattr(self.seams.ctx, "attempt", 0) > 0:
                # retry after an injected fault: the interrupted attempt may have been cut in the middle of its (legitimate) write-back into the
                # table, so the client rebuilds its table instead of re-using a possibly half-written one
                df = self._static_frame(client, present)
            elif not refused_before:
                # the earlier call with the other system was accepted and legitimately wrote into the table: start from a fresh one
                df = self._static_frame(client, present)
            else:
                self.probe("fill_frame_reused_after_refusal")
        else:
            df = self._static_frame(client, present)
        inputs = {c: df[c].to_numpy().copy() for c in df.columns}
        cols0 = [str(c) for c in df.columns]
        target = op["target"]
        if isinstance(target, dict):
            p = os.path.join(self.root, target["relpath"])
            target = p if target.get("abs") else os.path.relpath(p, self._cwd_of(client))
        flags = dict(op.get("flags", {}))
        self._fill_results = getattr(self, "_fill_results", {})
        try:
            res = fill_cij(df, target, **flags)
            lowered = [str(c).lower() for c in res.columns]
            if len(set(lowered)) != len(lowered) and "O-env" in self.oracles:
                dup = sorted({c for c in lowered if lowered.count(c) > 1})
                self.verdict("O-env", "C09", client, i, f"the filled table carries the same component more than once under different letter case: {dup[:4]} (columns {[str(c) for c in res.columns][:12]})")
            outcome = ("ok", {str(c).lower(): res[c].to_numpy().astype(float) for c in res.columns}, [str(c) for c in res.columns])
        except Warning as e:
            outcome = ("refused", type(e).__name__, str(e)[:40])
            self._fill_results[(client, i)] = outcome
            if op.get("keep_frame"):
                self._frames[(client, op["keep_frame"])] = (df, True)
            if "O-env" in self.oracles:
                diff = self._frame_equal(df, cols0, inputs)
                if diff is not None:
                    self.verdict("O-env", "C09", client, i, f"a refused fill modified the table it was given: {diff}")
                else:
                    self.probe("fill_refused_left_table_untouched")
                if op.get("must_not_refuse"):
                    self.verdict("O-env", "C09", client, i, f"fill refused ({str(e)[:60]}) although the flag that switches off the {op['must_not_refuse']} refusal was given")
                elif op.get("must_refuse"):
                    self.probe("fill_must_refuse_" + op["must_refuse"])
                elif op.get("expect_ok") and isinstance(op["target"], str) and not self._injected_now():
                    self.verdict("O-env", "C09", client, i, f"fill refused a sufficient, consistent table (system {op['target']}): {str(e)[:120]}")
            self._fill_compare(client, i, op, outcome, inputs)
            raise
        except Exception as e:
            outcome = ("error", type(e).__name__, str(e)[:60])
            self._fill_results[(client, i)] = outcome
            if op.get("keep_frame"):
                self._frames[(client, op["keep_frame"])] = (df, True)
            if not self._injected_now():
                self._fill_compare(client, i, op, outcome, inputs)
                if op.get("expect_fail") and isinstance(e, (OSError, ValueError)):
                    self.probe("fill_nonexistent_path_rejected")
            raise
        if op.get("expect_fail") and "O-env" in self.oracles:
            self.verdict("O-env", "C09", client, i, "fill_cij accepted a relations path that does not exist and returned a result")
        if op.get("keep_frame"):
            self._frames[(client, op["keep_frame"])] = (df, False)
        if op.get("must_refuse") and "O-env" in self.oracles:
            what = ("omits every member of the relation class " + str(present.get("drop_keys"))) if op["must_refuse"] == "rank" else \
                   ("contradicts a relation by " + str(present.get("perturb")) + " GPa")
            self.verdict("O-env", "C09", client, i, f"fill accepted a table that {what} (system {op['target']}): it must refuse ({op['must_refuse']})")
        if op.get("must_not_refuse"):
            self.probe("fill_ignore_flag_" + op["must_not_refuse"])
        self._fill_results[(client, i)] = outcome
        self._fill_compare(client, i, op, outcome, inputs)
        off = present.get("offset")
        if off and "O-env" in self.oracles:
            a, b, d = off
            got = outcome[1]
            if "c" + a in got and "c" + b in got:
                dev = float(numpy.max(numpy.abs(got["c" + a] - got["c" + b] - float(d))))
                if dev > 1e-6:
                    self.verdict("O-env", "C09", client, i, f"user-written relations with a constant term (c{a} = c{b} + {d}): the filled table violates it by {dev:.3e}")
                else:
                    self.probe("fill_offset_relation_checked")
            else:
                self.verdict("O-env", "C09", client, i, f"user-written relations with a constant term (c{a} = c{b} + {d}): c{a} or c{b} is missing from the filled table")
        cols = outcome[2]
        dig = [[c, S_sha(numpy.ascontiguousarray(res[c].to_numpy().astype(float)).tobytes())] for c in res.columns]
        return {"table": dig}

    def _fill_compare(self, client, i, op, outcome, inputs):
        if "O-env" not in self.oracles:
            return
        # accepted fills leave supplied values in place and pass non-modulus columns through
        if outcome[0] == "ok" and not (isinstance(op.get("flags"), dict) and op["flags"].get("ignore_residuals") and op.get("present", {}).get("perturb")):
            got = outcome[1]
            for c, v in inputs.items():
                g = got.get(str(c).lower())
                if g is None:
                    if not numpy.allclose(v, 0, atol=1e-8):
                        self.verdict("O-env", "C09", client, i, f"fill dropped the supplied non-zero column {c}")
                        return
                    continue
                # 1e-6 GPa absolute: the generator rounds every supplied number to 10 significant digits, so three supplied members of
                # c66 = (c11 - c12) / 2 are mutually inconsistent by up to ~1e-7, and the least-squares solution legitimately spreads that
                if len(g) != len(v) or not numpy.allclose(g, v.astype(float), rtol=1e-9, atol=1e-6):
                    self.verdict("O-env", "C09", client, i, f"fill moved the supplied column {c}: max shift {float(numpy.max(numpy.abs(g - v))):.3e}")
                    return
            self.probe("fill_supplied_values_checked")
        ref = op.get("ref")
        if ref is None:
            return
        base = self._fill_results.get((client, ref))
        if base is None:
            return
        what = op.get("ref_what", "another presentation of the same table")
        if base[0] != outcome[0]:
            self.verdict("O-env", "C09", client, i, f"fill outcome depends on presentation ({what}): {base[0]} ({base[1] if base[0] != 'ok' else ''}) versus {outcome[0]} ({outcome[1] if outcome[0] != 'ok' else ''})")
            return
        if outcome[0] == "ok":
            a, b = base[1], outcome[1]
            if op.get("modulus_only"):
                import re as _re
                a = {k: v for k, v in a.items() if _re.fullmatch(r"c\d\d", k)}
                b = {k: v for k, v in b.items() if _re.fullmatch(r"c\d\d", k)}
            if sorted(a) != sorted(b):
                self.verdict("O-env", "C09", client, i, f"fill result columns depend on presentation ({what}): {sorted(a)} versus {sorted(b)}")
                return
            perm = op.get("present", {}).get("rows")
            for k in a:
                x, y = a[k], b[k]
                if perm:
                    x = x[perm]
                scale = max(1.0, float(numpy.max(numpy.abs(x))))
                tol = 1e-9 * scale if not op.get("printed") else 1.5e-6
                if len(x) != len(y) or float(numpy.max(numpy.abs(x - y))) > tol:
                    self.verdict("O-env", "C09", client, i, f"fill result depends on presentation ({what}): column {k} differs by {float(numpy.max(numpy.abs(x - y))):.3e}")
                    return
        self.probe("fill_presentation_pair_checked")

    # ------------------------------------------------------------------ phonon data write / read
    def _make_qha_input(self, d):
        from cij.io.traditional.models import QHAInputData, VolumeData, QPointData, QPointWeight
        vols = []
        for iv in range(d["nv"]):
            qps = [QPointData(tuple(d["qcoords"][q]), list(d["freqs"][iv][q])) for q in range(d["nq"])]
            vols.append(VolumeData(d["pressures"][iv], d["volumes"][iv], d["energies"][iv], qps))
        weights = [QPointWeight(tuple(d["qcoords"][q]), d["weights"][q]) for q in range(d["nq"])]
        return QHAInputData(d["nv"], d["nq"], d["np"], d["nm"], d["na"], weights, vols)

    def op_io_write_energy(self, client, i, op):
        from cij.io.traditional.qha_input import write_energy
        d = op["data"]
        path = os.path.join(self._home_of(client), op["path"])
        relp = os.path.relpath(path, self.root)
        prev = self.disk.get(relp)
        self._size_before = None
        if prev is not None and prev.get("kind") == "energy" and prev.get("data") is not None:
            self.probe("energy_file_overwritten")
            if prev["data"]["nv"] > d["nv"]:
                self.probe("energy_file_overwritten_by_smaller")
            if (prev["data"]["nv"], prev["data"]["nq"], prev["data"]["np"]) == (d["nv"], d["nq"], d["np"]):
                self.probe("energy_file_overwritten_same_shape")
                try:
                    self._size_before = os.path.getsize(path)
                except OSError:
                    self._size_before = None
            else:
                self._size_before = None
        self.disk[relp] = {"state": "indeterminate", "writer": client, "kind": "energy"}
        kw = {}
        if op.get("comment") is not None:
            kw["comment"] = op["comment"]
        write_energy(path if op.get("abs", True) else os.path.relpath(path, self._cwd_of(client)), self._make_qha_input(d), **kw)
        self.disk[relp] = {"state": "ok", "writer": client, "kind": "energy", "data": d}
        if getattr(self, "_size_before", None) is not None and prev is not None and prev.get("data") is not None and os.path.getsize(path) == self._size_before and prev["data"] != d:
            self.probe("energy_file_overwritten_same_size")       # other content, same byte size (and, without a tick in between, same timestamp)
        return {}

    def op_io_read_energy(self, client, i, op):
        from cij.io.traditional.qha_input import read_energy
        if op.get("path") is None:
            w = self.sc["worlds"][client]
            path = os.path.join(self.root, w["datadir"], w["settings"]["qha"]["input"])
            truth, prec = w["phonon"], None
        else:
            path = os.path.join(self._home_of(client), op["path"])
            m = self.disk.get(os.path.relpath(path, self.root))
            truth, prec = (m["data"] if m and m.get("state") == "ok" and m.get("kind") == "energy" else None), "written"
        try:
            data = read_energy(path if op.get("abs", True) else os.path.relpath(path, self._cwd_of(client)))
        except Exception as e:
            if "O-round" in self.oracles and truth is not None and not self._injected_now():
                self.verdict("O-round", "C17", client, i, ("read_energy cannot read back the file write_energy wrote" if prec else "read_energy cannot read a well-formed phonon file")
                             + f" ({op.get('path') or 'input file'}): {type(e).__name__}: {str(e)[:120]}")
            raise
        if "O-round" in self.oracles and truth is not None:
            if prec is None:
                oracles_io.check_qha_input(self, client, i, data, truth, "read_energy(input file)", rel=4e-16)
            else:
                # written precision: 6 decimals for P, V, E, frequencies, weights; 4 for volume-block coordinates
                ok = oracles_io.check_qha_input(self, client, i, data, truth, f"write_energy -> read_energy({op['path']})",
                                                rel=0.0, abs_=0.5000001e-6, coord_abs=0.5000001e-4)
                if ok:
                    self.probe("energy_roundtrip_checked")
        return {"data": S_sha(repr(data).encode())}

    def op_io_read_elast(self, client, i, op):
        from cij.io.traditional.elast_dat import read_elast_data
        path = self._static_path(client)
        try:
            data = read_elast_data(path if op.get("abs", True) else os.path.relpath(path, self._cwd_of(client)))
        except Exception as e:
            if "O-round" in self.oracles and not self._injected_now():
                self.verdict("O-round", "C17", client, i, f"read_elast_data cannot read a well-formed static table: {type(e).__name__}: {str(e)[:120]}")
            raise
        if "O-round" in self.oracles:
            oracles_io.check_elast_data(self, client, i, data, self.sc["worlds"][client]["static"], "read_elast_data(input file)")
        rep = repr((data.vref, data.nv, data.cellmass, [(v.volume, [(("%d%d" % k.v) if hasattr(k, "v") else repr(k), x) for k, x in v.static_elastic_modulus.items()]) for v in data.volumes], data.lattice_parmeters))
        return {"data": S_sha(rep.encode())}

    # ------------------------------------------------------------------ extract / geotherm
    def _resolve_var(self, client, var):
        """what the documentation says `var` denotes in this cwd: the files named <var>_tp_*."""
        cwd = self._cwd_of(client)
        names = sorted(S._real_listdir(cwd))
        return [n for n in names if fnmatch.fnmatchcase(n, f"{var}_tp_*")]

    def _table_truth(self, client, var):
        matches = self._resolve_var(client, var)
        if len(matches) != 1:
            self.probe("extract_var_ambiguous" if matches else "extract_var_missing")
            return None
        cwdrel = self.cwd_rel[client]
        m = self.disk.get(cwdrel + "/" + matches[0])
        if m is not None and m.get("state") != "ok":
            self.probe("extract_skipped_indeterminate_file")
            return None
        if m is not None and m.get("writer") not in (None, client):
            self.probe("extract_reads_other_clients_file")
        if m is not None and m.get("stub"):
            self.probe("extract_reads_stub_table")
        try:
            text = S.read_bytes(os.path.join(self._cwd_of(client), matches[0])).decode()
            return TB.parse_table_numeric(text), m
        except Exception:
            return None

    def op_cli_extract(self, client, i, op):
        from cij.cli.cij import main
        args = ["extract", "-v", ",".join(op["variables"])]
        if op.get("T") is not None:
            args += ["-T", repr(float(op["T"]))]
        if op.get("P") is not None:
            args += ["-P", repr(float(op["P"]))]
        if op.get("hide_header"):
            args += ["-h"]
        truths = {v: self._table_truth(client, v) for v in op["variables"]} if "O-extract" in self.oracles else {}
        try:
            main(args=args, standalone_mode=False)
        except Exception as e:
            if "O-extract" in self.oracles and truths and all(t is not None for t in truths.values()) and not self._injected_now():
                self.verdict("O-extract", "C19", client, i, f"extract failed although every requested variable has exactly one intact table in the working directory: "
                             f"{type(e).__name__}: {str(e)[:120]}")
            raise
        out = self.stdout._local.buf.getvalue()
        if "O-extract" in self.oracles:
            self._check_extract(client, i, op, out, truths)
        return {}

    def _check_extract(self, client, i, op, out, truths):
        lines = [ln for ln in out.split("\n") if ln.strip()]
        variables = op["variables"]
        if not op.get("hide_header"):
            head = lines[0].split()
            if head != variables:
                self.verdict("O-extract", "C19", client, i, f"extract header {head} != requested variables {variables}")
                return
            lines = lines[1:]
        rows = [ln.split() for ln in lines]
        axis = "cols" if op.get("T") is not None else "rows"
        known = [truths[v][0][axis] for v in variables if truths.get(v) is not None]
        if any(truths.get(v) is None for v in variables) or any(k != known[0] for k in known):
            # a variable that does not resolve to exactly one intact table, or tables on different grids:
            # "labelled by the other coordinate" has no unambiguous meaning, nothing is demanded
            self.probe("extract_mixed_or_unresolved_skipped")
            return
        for vi, var in enumerate(variables):
            tr = truths.get(var)
            t, m = tr
            if op.get("T") is not None:
                y = float(op["T"])
                k = int(numpy.argmin(numpy.abs(numpy.array(t["rows"]) - y)))
                d = sorted(abs(r - y) for r in t["rows"])
                if len(d) > 1 and d[1] - d[0] < 1e-9 * max(1.0, abs(y)):
                    self.probe("extract_tie_skipped")
                    continue
                expected = t["vals"][k]
                labels = t["cols"]
            else:
                y = float(op["P"])
                k = int(numpy.argmin(numpy.abs(numpy.array(t["cols"]) - y)))
                d = sorted(abs(c - y) for c in t["cols"])
                if len(d) > 1 and d[1] - d[0] < 1e-9 * max(1.0, abs(y)):
                    self.probe("extract_tie_skipped")
                    continue
                expected = [row[k] for row in t["vals"]]
                labels = t["rows"]
            if len(rows) != len(expected):
                self.verdict("O-extract", "C19", client, i, f"extract returned {len(rows)} rows for {var}, the table has {len(expected)} along that axis")
                return
            for r, (toks, e) in enumerate(zip(rows, expected)):
                if len(toks) != len(variables) + 1:
                    self.verdict("O-extract", "C19", client, i, f"extract row {r} has {len(toks)} fields for {len(variables)} variables")
                    return
                if not TB.value_close_printed(toks[1 + vi], e, rel=1e-12):
                    self.verdict("O-extract", "C19", client, i,
                                 f"extract {var} at {'T' if op.get('T') is not None else 'P'}={y}: row {r} is {toks[1 + vi]}, the table's nearest {'row' if op.get('T') is not None else 'column'} (label {t['rows'][k] if op.get('T') is not None else t['cols'][k]}) has {e!r}")
                    return
                if not TB.label_close(toks[0], labels[r], rel=1e-9):
                    self.verdict("O-extract", "C19", client, i, f"extract row {r} is labelled {toks[0]}, the table's other coordinate is {labels[r]}")
                    return
            self.probe("extract_checked")
            if op.get("T") is not None and not any(abs(y - r) < 1e-12 for r in t["rows"]):
                self.probe("extract_between_grid_values")

    def op_cli_geotherm(self, client, i, op):
        from cij.cli.cij import main
        gpath = os.path.join(self._home_of(client), op["geotherm"])
        args = ["extract-geotherm", "-g", gpath if op.get("abs", True) else os.path.relpath(gpath, self._cwd_of(client)), "-v", ",".join(op["variables"])]
        if op.get("hide_header"):
            args += ["-h"]
        if op.get("pname", "P") != "P" or op.get("tname", "T") != "T":
            args += ["--t-col", op["pname"], "--p-col", op["tname"]]      # sic: per the help text --t-col names the pressure column
            self.probe("geotherm_custom_column_names")
        truths = {v: self._table_truth(client, v) for v in op["variables"]} if "O-extract" in self.oracles else {}
        try:
            main(args=args, standalone_mode=False)
        except Exception as e:
            if "O-extract" in self.oracles and truths and all(t is not None for t in truths.values()) and not self._injected_now():
                self.verdict("O-extract", "C19", client, i, f"extract-geotherm failed although every requested variable has exactly one intact table in the working directory: "
                             f"{type(e).__name__}: {str(e)[:120]}")
            raise
        out = self.stdout._local.buf.getvalue()
        if "O-extract" in self.oracles:
            self._check_geotherm(client, i, op, out, truths)
        return {}

    def _check_geotherm(self, client, i, op, out, truths):
        pts = op["points"]          # [[P, T, extra...]] as written into the geotherm file by the simulator
        colnames = op["columns"]    # e.g. ["P", "T", "depth"]
        variables = op["variables"]
        lines = [ln for ln in out.split("\n") if ln.strip()]
        if not op.get("hide_header"):
            head = lines[0].split()
            if head != colnames + variables:
                self.verdict("O-extract", "C19", client, i, f"extract-geotherm header {head} != geotherm columns + variables {colnames + variables}")
                return
            lines = lines[1:]
        rows = [ln.split() for ln in lines]
        if len(rows) != len(pts):
            self.verdict("O-extract", "C19", client, i, f"extract-geotherm returned {len(rows)} rows for a geotherm of {len(pts)} points")
            return
        ip, it = colnames.index(op.get("pname", "P")), colnames.index(op.get("tname", "T"))
        for r, (toks, pt) in enumerate(zip(rows, pts)):
            if len(toks) != len(colnames) + len(variables):
                self.verdict("O-extract", "C19", client, i, f"extract-geotherm row {r} has {len(toks)} fields")
                return
            for c, (tok, x) in enumerate(zip(toks, pt)):
                if not TB.value_close_printed(tok, float(x), rel=1e-12):
                    self.verdict("O-extract", "C19", client, i, f"extract-geotherm changed the geotherm's own column {colnames[c]}: {tok} != {x}")
                    return
        for vi, var in enumerate(variables):
            tr = truths.get(var)
            if tr is None:
                continue
            t, m = tr
            T, P = numpy.array(t["rows"]), numpy.array(t["cols"])
            poly = m.get("poly") if m else None
            nonfinite = not bool(numpy.isfinite(numpy.array(t["vals"], dtype=float)).all())
            for r, (toks, pt) in enumerate(zip(rows, pts)):
                p, temp = float(pt[ip]), float(pt[it])
                tok = toks[len(colnames) + vi]
                if not (T.min() <= temp <= T.max() and P.min() <= p <= P.max()):
                    self.probe("geotherm_point_outside_table_skipped")   # the property speaks of paths inside the tabulated range
                    continue
                kt = numpy.where(numpy.abs(T - temp) <= 1e-9 * max(1.0, abs(temp)))[0]
                kp = numpy.where(numpy.abs(P - p) <= 1e-9 * max(1.0, abs(p)))[0]
                expected = None
                if len(kt) == 1 and len(kp) == 1:
                    expected = t["vals"][int(kt[0])][int(kp[0])]
                    self.probe("geotherm_node_checked")
                elif poly is not None:
                    expected = eval_poly(poly, temp, p)
                    self.probe("geotherm_offnode_poly_checked")
                if expected is None or math.isnan(expected):
                    continue
                if not TB.value_close_printed(tok, expected, rel=1e-6):
                    self.verdict("O-extract", "C19", client, i,
                                 f"extract-geotherm {var} at (P={p}, T={temp}): {tok}, " +
                                 ("table entry at that grid node" if poly is None or (len(kt) == 1 and len(kp) == 1) else "bicubic table's generating polynomial") + f" is {expected!r}" +
                                 (" [the table contains non-finite entries elsewhere]" if nonfinite else ""), table_nonfinite=nonfinite)
                    return

    # ------------------------------------------------------------------ run-static (observation only)
    def op_cli_static(self, client, i, op):
        from cij.cli.cij import main
        w = self.sc["worlds"][client]
        p1 = os.path.join(self.root, w["datadir"], w["settings"]["qha"]["input"])
        args = ["run-static", p1]
        if op.get("with_table"):
            args.append(self._static_path(client))
        args += ["-I", op.get("mode", "none")]
        if op.get("system"):
            args += ["-s", op["system"]]
        main(args=args, standalone_mode=False)
        return {}


def eval_poly(poly, t, p):
    """poly: {'t0','ts','p0','ps','coef': 4x4} ; value = sum c[a][b] x^a y^b, x=(t-t0)/ts, y=(p-p0)/ps"""
    x = (t - poly["t0"]) / poly["ts"]
    y = (p - poly["p0"]) / poly["ps"]
    return sum(poly["coef"][a][b] * x ** a * y ** b for a in range(4) for b in range(4))


def S_sha(b):
    import hashlib
    return hashlib.sha256(b).hexdigest()
