"""Coordinator side: a pool of zygote interpreters, each started with its own PYTHONHASHSEED."""
import collections
import json
import os
import subprocess
import sys
import threading
import time

HERE = os.path.dirname(os.path.abspath(__file__))
PY = "/venv/bin/python"


def zygote_env(hashseed):
    env = dict(os.environ)
    env.update({
        "PYTHONHASHSEED": str(hashseed), "PYTHONPATH": os.environ.get("CIJSIM_REPO", "/repo"), "PYTHONDONTWRITEBYTECODE": "1",
        "OPENBLAS_NUM_THREADS": "1", "OMP_NUM_THREADS": "1", "MKL_NUM_THREADS": "1", "NUMEXPR_NUM_THREADS": "1",
        "PYTHONWARNINGS": "ignore", "MPLBACKEND": "Agg",
    })
    return env


class Zygote:
    def __init__(self, hashseed, idx, stderr_path):
        self.hashseed = hashseed
        self.idx = idx
        self.stderr = open(stderr_path, "ab")
        self.proc = subprocess.Popen([PY, "-W", "ignore", os.path.join(HERE, "zygote.py")], stdin=subprocess.PIPE,
                                     stdout=subprocess.PIPE, stderr=self.stderr, env=zygote_env(hashseed), cwd=os.path.dirname(stderr_path))
        # cwd = the pool's scratch directory (removed with it): a changed cij that remembers the import-time directory writes there, not into /
        self.ready = False
        self.dead = False

    def wait_ready(self, timeout=180):
        line = self._readline(timeout)
        if line is None:
            self.dead = True
            return False
        self.ready = json.loads(line).get("ready", False)
        return self.ready

    def _readline(self, timeout):
        import select
        fd = self.proc.stdout.fileno()
        buf = getattr(self, "_buf", b"")
        deadline = time.monotonic() + timeout
        while b"\n" not in buf:
            left = deadline - time.monotonic()
            if left <= 0:
                self._buf = buf
                return None
            r, _, _ = select.select([fd], [], [], min(left, 5.0))
            if r:
                b = os.read(fd, 1 << 20)
                if not b:
                    self._buf = buf
                    return None
                buf += b
        line, _, rest = buf.partition(b"\n")
        self._buf = rest
        return line

    def call(self, job, timeout=200):
        if self.dead:
            return {"harness_error": "zygote is dead"}
        try:
            self.proc.stdin.write((json.dumps(job) + "\n").encode())
            self.proc.stdin.flush()
        except OSError as e:
            self.dead = True
            return {"harness_error": f"zygote pipe: {e}"}
        line = self._readline(timeout)
        if line is None:
            self.dead = True
            try:
                self.proc.kill()
            except OSError:
                pass
            return {"harness_error": "zygote gave no answer (dead or past its deadline)"}
        return json.loads(line)

    def close(self):
        try:
            if not self.dead:
                self.proc.stdin.write(b'{"cmd": "quit"}\n')
                self.proc.stdin.flush()
            self.proc.stdin.close()
        except OSError:
            pass
        try:
            self.proc.wait(timeout=5)
        except Exception:
            try:
                self.proc.kill()
            except OSError:
                pass
        self.stderr.close()


class Pool:
    """zygotes grouped by hash seed; jobs carry the hash seed they must run under."""

    def __init__(self, hashseeds, log_dir):
        os.makedirs(log_dir, exist_ok=True)
        self.log_dir = log_dir
        self.zygotes = [Zygote(h, i, os.path.join(log_dir, f"zygote-{i}.stderr")) for i, h in enumerate(hashseeds)]
        ts = [threading.Thread(target=z.wait_ready) for z in self.zygotes]
        [t.start() for t in ts]
        [t.join() for t in ts]
        bad = [z.idx for z in self.zygotes if not z.ready]
        if bad:
            self.close()
            raise RuntimeError(f"zygotes {bad} failed to start; see {log_dir}")
        self.by_hash = collections.defaultdict(list)
        for z in self.zygotes:
            self.by_hash[z.hashseed].append(z)

    def run_jobs(self, jobs, on_result=None, deadline=None):
        """jobs: list of dicts with 'hash' and 'id' (+ payload).  Returns id -> result."""
        queues = collections.defaultdict(collections.deque)
        for j in jobs:
            if j["hash"] not in self.by_hash:
                raise RuntimeError(f"no zygote with hash seed {j['hash']}")
            queues[j["hash"]].append(j)
        results = {}
        lock = threading.Lock()

        def worker(z):
            q = queues[z.hashseed]
            while True:
                with lock:
                    if not q:
                        return
                    if deadline is not None and time.monotonic() > deadline:
                        return
                    j = q.popleft()
                payload = {k: v for k, v in j.items() if k != "hash"}
                res = z.call(payload)
                res["_zygote"] = z.idx
                with lock:
                    results[j["id"]] = res
                if on_result is not None:
                    on_result(j, res)
                if z.dead:
                    return

        ts = [threading.Thread(target=worker, args=(z,)) for z in self.zygotes]
        [t.start() for t in ts]
        [t.join() for t in ts]
        return results

    def call_any(self, hashseed, job):
        zs = [z for z in self.by_hash.get(hashseed, []) if not z.dead]
        if not zs:
            return {"harness_error": f"no live zygote for hash seed {hashseed}"}
        return zs[0].call(job)

    def close(self):
        for z in self.zygotes:
            z.close()
