"""tasksim: deterministic simulation of request histories against cij's task scheduler (C04).

System under simulation: the real cij/core/tasks.py, shear.py, nonshear.py, voigt.py.  The
calculator behind them is a duck-typed stub holding arrays (80 % of worlds) or a real
Calculator built from a sessionsim world (20 %).

Per world: the 21 singleton requests (reference), then request histories -- seeded subsets
of the 21 keys in seeded order, with duplicates and alternative spellings -- each monitored
while it runs (wrappers around evaluation / store / lookup / resolve, every event stamped
with a global sequence number) and compared afterwards with the solo-request values.
"""
import hashlib
import json
import os
import random
import sys
import time
import traceback

import numpy

from . import world as W

ALL21 = W.ALL21
VOIGT_TO_STD = {1: (1, 1), 2: (2, 2), 3: (3, 3), 4: (2, 3), 5: (1, 3), 6: (1, 2)}


# ---------------------------------------------------------------------------
# worlds
# ---------------------------------------------------------------------------

STRAIN_KINDS = ["generic", "generic_v", "equal", "near_equal", "two_equal", "near_two_equal", "near_equal_v", "int", "unnormalised"]


def gen_strain(rng, kind, ntv):
    def norm(rows):
        return [[x / sum(r) for x in r] for r in rows]
    if kind == "generic":
        e = [rng.uniform(0.15, 0.6) for _ in range(3)]
        return norm([e] * ntv)
    if kind == "generic_v":
        e = [rng.uniform(0.2, 0.5) for _ in range(3)]
        s = [rng.uniform(-0.1, 0.1) for _ in range(3)]
        return norm([[e[i] + s[i] * j / ntv for i in range(3)] for j in range(ntv)])
    if kind == "equal":
        return [[1 / 3, 1 / 3, 1 / 3]] * ntv
    if kind == "int":           # positive axial strains given as whole numbers (an integer-typed array): equal, two equal or all different
        e = rng.choice([[2, 2, 2], [1, 1, 1], [1, 2, 3], [3, 1, 2], [2, 2, 5], [4, 1, 1]])
        return [list(e)] * ntv
    if kind == "unnormalised":  # what the calculator itself passes when no lattice block is given is (1, 1, 1): strains need not sum to one
        e = [rng.uniform(0.5, 4.0) for _ in range(3)]
        return [e] * ntv
    if kind in ("near_equal", "near_equal_v"):
        d = [10 ** rng.uniform(-7, -3) * rng.choice([-1, 1]) for _ in range(3)]
        if kind == "near_equal":
            return [[1 / 3 + d[0], 1 / 3 + d[1], 1 / 3 + d[2]]] * ntv
        return [[1 / 3 + d[i] * (1 + j / ntv) for i in range(3)] for j in range(ntv)]
    if kind == "two_equal":
        a = rng.uniform(0.2, 0.4)
        e = [a, a, 1 - 2 * a]
        k = rng.randrange(3)
        e = e[k:] + e[:k]
        return [e] * ntv
    if kind == "near_two_equal":
        a = rng.uniform(0.2, 0.4)
        d = 10 ** rng.uniform(-7, -3)
        e = [a, a + d, 1 - 2 * a - d]
        k = rng.randrange(3)
        e = e[k:] + e[:k]
        return [e] * ntv
    raise ValueError(kind)


def gen_stub_world(rng, tier):
    big = tier == "thorough"
    ntv = rng.randint(5, 12)
    nt = rng.randint(3, 8)
    nq = rng.randint(1, 4)
    na = rng.randint(1, 4)
    np_ = 3 * na
    t0 = rng.choice([0.0, 0.0, 50.0, 300.0])
    dt = rng.choice([1.0, 50.0, 100.0, 400.0])
    t = [t0 + i * dt for i in range(nt)]
    v0 = rng.uniform(100, 800)
    v = [v0 * (1.2 - 0.5 * j / (ntv - 1)) for j in range(ntv)]
    freq = [[[0.0 if (q == 0 and m < 3) else rng.uniform(30, 1500) * (1 + 0.3 * j / ntv) for m in range(np_)] for q in range(nq)] for j in range(ntv)]
    gam = [[[0.0 if (q == 0 and m < 3) else rng.uniform(0.3, 2.5) for m in range(np_)] for q in range(nq)] for j in range(ntv)]
    dgam = [[[0.0 if (q == 0 and m < 3) else rng.uniform(-2, 2) for m in range(np_)] for q in range(nq)] for j in range(ntv)]
    weights = [rng.uniform(0.5, 8) for _ in range(nq)]
    pressures = [[rng.uniform(-0.001, 0.01) + 0.001 * i for j in range(ntv)] for i in range(nt)]
    cv = [[rng.uniform(1e-5, 1e-3) for j in range(ntv)] for i in range(nt)]
    static_p = [rng.uniform(-0.001, 0.01) for j in range(ntv)]
    kind = rng.choice(STRAIN_KINDS)
    return {"kind": "stub", "ntv": ntv, "nt": nt, "nq": nq, "na": na, "np": np_, "t": t, "v": v, "freq": freq,
            "gamma": gam, "dgamma": dgam, "weights": weights, "pressures": pressures, "cv": cv, "static_p": static_p,
            "strain_kind": kind, "strain": gen_strain(rng, kind, ntv)}


class _NS:
    pass


def build_stub(world):
    calc = _NS()
    calc.nv = world["ntv"]
    calc.np, calc.nq, calc.na = world["np"], world["nq"], world["na"]
    calc.v_array = numpy.array(world["v"])
    calc.t_array = numpy.array(world["t"])
    calc.freq_array = numpy.array(world["freq"])
    g = numpy.array(world["gamma"])
    calc.mode_gamma = [numpy.array(world["dgamma"]), g, g ** 2]
    calc.static_p_array = numpy.array(world["static_p"])
    qi = _NS()
    qi.weights = [((0.0, 0.0, 0.0), w) for w in world["weights"]]
    calc.qha_input = qi
    vb = _NS()
    vb.pressures = numpy.array(world["pressures"])
    vb.heat_capacity = numpy.array(world["cv"])
    qc = _NS()
    qc.volume_base = vb
    calc.qha_calculator = qc
    return calc


def spell(rng, key):
    """alternative spellings of one component key -> arguments for cij.util.c_"""
    i, j = int(key[0]), int(key[1])
    r = rng.random()
    if r < 0.4:
        return [key]
    if r < 0.55:
        return [j, i]
    if r < 0.7:
        return [int(key)]
    a, b = VOIGT_TO_STD[i], VOIGT_TO_STD[j]
    if rng.random() < 0.5:
        a = (a[1], a[0])
    if rng.random() < 0.5:
        a, b = b, a
    if r < 0.85:
        return [a[0], a[1], b[0], b[1]]
    return ["%d%d%d%d" % (a[0], a[1], b[0], b[1])]


def gen_histories(rng, n):
    hs = []
    hs.append([[k] for k in ALL21])
    hs.append([[k] for k in reversed(ALL21)])
    full = list(ALL21)
    rng.shuffle(full)
    hs.append([[k] for k in full])
    for _ in range(n):
        size = rng.choice([1, 2, 2, 3, 4, 6, 9, 13, 17, 21])
        subset = rng.sample(ALL21, size)
        h = []
        for k in subset:
            h.append(spell(rng, k) if rng.random() < 0.3 else [k])
        if rng.random() < 0.1 and h:
            h.insert(rng.randrange(len(h) + 1), spell(rng, rng.choice(subset)))   # a duplicate in another spelling
        hs.append(h)
    return hs


# ---------------------------------------------------------------------------
# monitor
# ---------------------------------------------------------------------------

class Monitor:
    def __init__(self):
        self.seq = 0
        self.events = []
        self.violations = []
        self.stats = {"evaluations": 0, "stores": 0, "lookups": 0, "resolves": 0, "shear_tasks": 0, "max_tasks": 0,
                      "dedup_hits": 0, "three_level_chains": 0, "edges": 0}
        self.installed = False

    def ev(self, kind, *f):
        self.seq += 1
        self.events.append((self.seq, kind) + f)

    def bad(self, msg):
        self.violations.append(msg)

    def install(self):
        import cij.core.tasks as T
        import networkx as nx
        mon = self
        self._orig = (T.PhononContributionTask.get_modulus_isothermal, T.PhononContributionTaskResults.__setitem__,
                      T.PhononContributionTaskList.resolve, T.PhononContributionTaskResults.__getitem__)
        orig_get, orig_set, orig_resolve, orig_getitem = self._orig

        def pdig(params):
            h = hashlib.sha256()
            h.update(str(params.calc_type).encode())
            for p in params.params:
                if isinstance(p, numpy.ndarray):
                    h.update(numpy.ascontiguousarray(p).tobytes())
                else:
                    h.update(repr(p).encode())
            return h.hexdigest()[:12]

        def get_iso(task):
            n = getattr(task, "_sim_evals", 0) + 1
            task._sim_evals = n
            mon.stats["evaluations"] += 1
            mon.ev("evaluate", pdig(task.task_params))
            if n > 1:
                mon.stats["re_evaluations"] = mon.stats.get("re_evaluations", 0) + 1     # counted, not demanded: C04 asks for the order, not for once-only
            if task.key.is_shear:
                mon.stats["shear_tasks"] += 1
                tl = getattr(task, "_sim_list", None)
                deps = task.get_dependencies()
                own = [k for (s, k) in deps[: len(task.calculator.get_modulus_keys())] if k == task.key]
                if own:
                    mon.bad(f"shear task {task.key} lists its own key among the components it asks for")
                if tl is not None:
                    for (s, k) in deps:
                        try:
                            tl.modulus_isothermal_values[(s, k)]
                        except StopIteration:
                            mon.bad(f"shear task {task.key} evaluated before its dependency {k} was stored")
                            break
            return orig_get(task)

        def setitem(res, key, val):
            mon.stats["stores"] += 1
            if isinstance(key, T.PhononContributionTaskParams):
                params = key
            else:
                params = T.PhononContributionTaskParams.create(*key)
            for p, v in res.data.items():
                if p is params or (hash(p) == hash(params) and p == params):
                    if not numpy.array_equal(v, val, equal_nan=True):
                        mon.bad("a stored task result was stored again with different content")
            mon.ev("store", pdig(params))
            return orig_set(res, key, val)

        def getitem(res, key):
            mon.stats["lookups"] += 1
            return orig_getitem(res, key)

        def resolve(tl, strain, keys):
            mon.stats["resolves"] += 1
            out = orig_resolve(tl, strain, keys)
            g = getattr(tl, "_graph", None)
            if g is None or not hasattr(tl, "_tasks") or not hasattr(tl, "data"):
                mon.stats["graph_checks_skipped"] = mon.stats.get("graph_checks_skipped", 0) + 1     # internals renamed: the structural checks are not available
                return out
            mon.stats["max_tasks"] = max(mon.stats["max_tasks"], len(tl._tasks))
            mon.stats["edges"] += g.number_of_edges()
            if not nx.is_directed_acyclic_graph(g):
                mon.bad("dependency graph built by resolve has a cycle")
            pos = {id(t): i for i, t in enumerate(tl.data)}
            if len(pos) != len(tl._tasks):
                mon.bad("work list does not contain every task exactly once")
            for a, b in g.edges():        # b depends on a
                if pos.get(id(tl._tasks[a]), 1 << 30) >= pos.get(id(tl._tasks[b]), -1):
                    mon.bad("work list is not a topological order of the dependency graph")
                    break
            try:
                if nx.dag_longest_path_length(g) >= 2:
                    mon.stats["three_level_chains"] += 1
            except Exception:
                pass
            for t in tl.data:
                t._sim_list = tl
            mon.ev("resolve", len(tl._tasks), g.number_of_edges())
            return out

        T.PhononContributionTask.get_modulus_isothermal = get_iso
        T.PhononContributionTaskResults.__setitem__ = setitem
        T.PhononContributionTaskResults.__getitem__ = getitem
        T.PhononContributionTaskList.resolve = resolve
        self.installed = True

    def digest(self):
        h = hashlib.sha256()
        for e in self.events:
            h.update(repr(e).encode())
        return h.hexdigest()


# ---------------------------------------------------------------------------
# one world
# ---------------------------------------------------------------------------

def run_request(calc, strain, history):
    from cij.util import c_
    from cij.core.tasks import PhononContributionTaskList
    keys = [c_(*args) for args in history]
    tl = PhononContributionTaskList(calc)
    tl.resolve(strain, keys)
    tl.calculate()
    iso = tl.get_isothermal_results()
    ad = tl.get_adiabatic_results()
    return keys, iso, ad, tl


def canon(key):
    return "%d%d" % key.v


def _dev(a, b):
    """largest absolute difference; positions that are non-finite in BOTH arrays in the same way (the adiabatic value where the heat
    capacity underflows to zero at very low T is legitimately NaN) count as equal, a differing non-finite pattern as infinite"""
    a, b = numpy.asarray(a, dtype=float), numpy.asarray(b, dtype=float)
    if a.shape != b.shape:
        return float("inf")
    fa, fb = numpy.isfinite(a), numpy.isfinite(b)
    if not numpy.array_equal(fa, fb) or not numpy.array_equal(numpy.isnan(a), numpy.isnan(b)):
        return float("inf")
    if not fa.any():
        return 0.0
    return float(numpy.max(numpy.abs(a[fa] - b[fa])))


_HERE = os.path.dirname(os.path.abspath(__file__))


def _harness_exc(e):
    """raised by the simulator's own code (monitor, comparison), not by cij or a library under it: never a verdict"""
    tb = traceback.extract_tb(e.__traceback__)
    return bool(tb) and tb[-1].filename.startswith(_HERE)


class _Cancelled(BaseException):
    pass


def profile_request(calc, strain, history):
    """step number of the first execution of every distinct cij source line of one complete request (for the cancellation sweep)"""
    from cij.util import c_
    from cij.core.tasks import PhononContributionTaskList
    repo = os.path.realpath(os.environ.get("CIJSIM_REPO", "/repo")) + "/cij/"
    state = {"n": 0}
    first = {}

    def local(frame, event, arg):
        if event == "line":
            state["n"] += 1
            key = f"{frame.f_code.co_filename[len(repo):]}:{frame.f_lineno}"
            if key not in first:
                first[key] = state["n"]
        return local

    def glob(frame, event, arg):
        return local if frame.f_code.co_filename.startswith(repo) else None

    tl = PhononContributionTaskList(calc)
    sys.settrace(glob)
    try:
        tl.resolve(strain, [c_(*a) for a in history])
        tl.calculate()
        tl.get_isothermal_results()
    finally:
        sys.settrace(None)
    return first


def aborted_request(calc, strain, history, at_line):
    """an earlier request on the same calculator that is cancelled at its k-th cij line event (inside resolve or calculate) and
    abandoned -- process history for the requests that follow.  Returns the source site at which it was cut, or None if it finished first."""
    from cij.util import c_
    from cij.core.tasks import PhononContributionTaskList
    repo = os.path.realpath(os.environ.get("CIJSIM_REPO", "/repo")) + "/cij/"
    state = {"n": 0, "site": None}

    def local(frame, event, arg):
        if event == "line":
            state["n"] += 1
            if state["n"] >= at_line and state["site"] is None:
                state["site"] = f"{frame.f_code.co_filename[len(repo):]}:{frame.f_code.co_name}"
                raise _Cancelled()
        return local

    def glob(frame, event, arg):
        return local if frame.f_code.co_filename.startswith(repo) else None

    tl = PhononContributionTaskList(calc)
    sys.settrace(glob)
    try:
        tl.resolve(strain, [c_(*a) for a in history])
        tl.calculate()
        tl.get_isothermal_results()
    except _Cancelled:
        pass
    finally:
        sys.settrace(None)
    return state["site"]


def permute_key(k, perm):
    """component key under relabelling of the crystal axes: axis a -> perm[a]"""
    i, j = int(k[0]), int(k[1])
    std = VOIGT_TO_STD[i] + VOIGT_TO_STD[j]
    new = [perm[a - 1] + 1 for a in std]
    inv = {v: kk for kk, v in VOIGT_TO_STD.items()}
    a = inv[tuple(sorted(new[:2]))]
    b = inv[tuple(sorted(new[2:]))]
    return "%d%d" % tuple(sorted((a, b)))


def gen_world_any(rng, tier):
    """85 % stub calculators, 15 % a real Calculator built from a sessionsim world with a lattice block"""
    if rng.random() < 0.85:
        return gen_stub_world(rng, tier)
    w = W.gen_world(rng, "quick", "A", force_lattice=rng.random() < 0.65, method=rng.choice(["lsq_poly", "spline", "pchip"]), cli_spelling=True)
    return {"kind": "calculator", "session_world": w,
            "strain_kind": ("lattice:" + w["static"]["system"]) if w["static"]["lattice"] is not None else "equal"}


def build_calculator(world):
    import shutil
    import tempfile
    import cij.core.calculator as cc
    root = tempfile.mkdtemp(prefix="tasksim-", dir="/dev/shm" if os.path.isdir("/dev/shm") else None)
    try:
        w = world["session_world"]
        W.materialize(w, root)
        import logging
        logging.getLogger("cij").setLevel(logging.ERROR)
        calc = cc.Calculator(os.path.join(root, w["datadir"], w["settings_name"]))
    finally:
        shutil.rmtree(root, ignore_errors=True)
    strain = calc._full_modulus.get_axial_strains()
    world["nt"], world["ntv"] = calc.dims
    world["strain"] = strain.tolist()
    return calc, strain


def run_world(seed, tier, world=None, histories=None, relations=True):
    rng = random.Random(seed)
    t0 = time.time()
    if world is None:
        world = gen_world_any(rng, tier)
    if histories is None:
        histories = gen_histories(rng, 30 if tier == "quick" else 60)
    if world["kind"] == "calculator":
        calc, strain = build_calculator(world)
        histories = histories[: 3 + (len(histories) - 3) // 2]
    else:
        calc = build_stub(world)
        strain = numpy.array(world["strain"])           # integer dtype for the "int" kind
        if world.get("strain_kind") == "int":
            world = dict(world, strain_is_int=True)
    mon = Monitor()
    mon.install()
    verdicts = []
    runs = 0
    sizes = {}

    def verdict(oracle, message, **kw):
        v = {"oracle": oracle, "property": "C04", "message": message, "strain_kind": world.get("strain_kind")}
        v.update(kw)
        verdicts.append(v)

    # reference: 21 singleton requests
    solo = {}
    solo_ad = {}
    strain_ref = strain.astype(float) if strain.dtype.kind in "iu" else strain      # references: the same numbers as floats
    for k in ALL21:
        try:
            keys, iso, ad, tl = run_request(calc, strain_ref, [[k]])
            runs += 1
        except Exception as e:
            if _harness_exc(e):
                raise
            verdict("O-complete", f"singleton request [{k}] raised {type(e).__name__}: {str(e)[:150]}", history=[[k]])
            continue
        solo[k] = numpy.asarray(iso[keys[0]])
        solo_ad[k] = numpy.asarray(ad[keys[0]])
        if solo[k].shape != (world["nt"], world["ntv"]):
            verdict("O-complete", f"singleton request [{k}] returned shape {solo[k].shape}, grid is {(world['nt'], world['ntv'])}", history=[[k]])
    for msg in mon.violations:
        verdict("O-monitor", msg + " (singleton request)")
    mon.violations = []
    scale = max([float(numpy.max(numpy.abs(a))) for a in solo.values()] + [1e-300])
    maxdev = 0.0
    arng = random.Random(seed ^ 0x9E3779B1)
    aborted = {}
    for h in histories:
        sizes[len(h)] = sizes.get(len(h), 0) + 1
        if arng.random() < 0.2:
            # fault injection: an earlier request on the same calculator is cancelled at a seeded cij line and abandoned
            try:
                site = aborted_request(calc, strain, [[k] for k in arng.sample(ALL21, arng.choice([1, 3, 9, 21]))], int(10 ** arng.uniform(0, 3.7)))
                aborted[site or "finished-before-the-cut"] = aborted.get(site or "finished-before-the-cut", 0) + 1
            except Exception as e:
                if _harness_exc(e):
                    raise
                verdict("O-complete", f"a request that was to be cancelled raised {type(e).__name__}: {str(e)[:150]}")
            mon.violations = []
        try:
            keys, iso, ad, tl = run_request(calc, strain, h)
            runs += 1
        except Exception as e:
            if _harness_exc(e):
                raise
            verdict("O-complete", f"request history raised {type(e).__name__}: {str(e)[:150]} (a requested component received no value)", history=h)
            mon.violations = []
            continue
        for msg in mon.violations:
            verdict("O-monitor", msg, history=h)
        mon.violations = []
        for key in keys:
            k = canon(key)
            if key not in iso:
                verdict("O-complete", f"requested component {k} received no value", history=h)
                continue
            a = numpy.asarray(iso[key])
            if a.shape != (world["nt"], world["ntv"]):
                verdict("O-complete", f"component {k} has shape {a.shape}, grid is {(world['nt'], world['ntv'])}", history=h)
                continue
            if k in solo:
                dev = _dev(a, solo[k]) / scale
                maxdev = max(maxdev, dev)
                if not dev <= 1e-9:
                    verdict("O-history", f"isothermal c{k} depends on the request: deviates from its singleton-request value by {dev:.3e} x scale", history=h, dev=dev)
                    break
                dev2 = _dev(ad[key], solo_ad[k]) / scale
                if not dev2 <= 1e-9:
                    verdict("O-history", f"adiabatic c{k} depends on the request: deviates from its singleton-request value by {dev2:.3e} x scale", history=h, dev=dev2)
                    break
    # the tensor the calculator assembled for itself (full_modulus) against a fresh request for the same strains and keys: the static part does
    # not depend on temperature, so differences between temperature rows are the phonon part's
    assembled = 0
    if world["kind"] == "calculator":
        try:
            mk = [canon(k) for k in calc.modulus_keys]
            keys, iso, ad, tl = run_request(calc, strain, [[k] for k in mk])
            runs += 1
            mon.violations = []
            for key in keys:
                for name, mine, theirs in (("isothermal", iso[key], calc.modulus_isothermal[key]), ("adiabatic", ad[key], calc.modulus_adiabatic[key])):
                    a = numpy.asarray(mine, dtype=float)
                    b = numpy.asarray(theirs, dtype=float)
                    da, db = a[1:] - a[:1], b[1:] - b[:1]
                    if not _dev(da, db) / scale <= 1e-9:
                        verdict("O-history", f"the {name} tensor the calculator assembled for itself: the temperature dependence of c{canon(key)} differs from that of a "
                                f"fresh request for the same strains and components by {_dev(da, db) / scale:.3e} x scale", history=[[k] for k in mk])
                        break
                assembled += 1
        except Exception as e:
            if _harness_exc(e):
                raise
            verdict("O-complete", f"comparison with the calculator's own tensor raised {type(e).__name__}: {str(e)[:150]}")
    mon.violations = []
    # cancellation sweep: an earlier request cancelled at the FIRST execution of a distinct source line (seeded sample of the lines one full
    # request runs), then a fresh request that must equal its singleton references
    swept = 0
    try:
        srng = random.Random(seed ^ 0x7F4A7C15)
        full = [[k] for k in ALL21]
        # on a COLD calculator (stub worlds: a fresh stub per variant), so that lines which run only once per calculator -- lazily built,
        # cached quantities -- are among the fault points and the request that follows meets whatever the cancelled one left on the calculator
        cold = (lambda: build_stub(world)) if world["kind"] == "stub" else (lambda: calc)
        sites = profile_request(cold(), strain, full)
        mon.violations = []
        keys_ = sorted(sites)
        for site in srng.sample(keys_, min(len(keys_), 12 if tier == "quick" else 60)):
            cc = cold()
            aborted_request(cc, strain, full, sites[site])
            mon.violations = []
            h = [[k] for k in srng.sample(ALL21, srng.choice([1, 2, 5]))]
            keys, iso, ad, tl = run_request(cc, strain, h)
            runs += 1
            mon.violations = []
            for key in keys:
                k = canon(key)
                if k in solo and not max(_dev(iso[key], solo[k]), _dev(ad[key], solo_ad[k])) / scale <= 1e-9:
                    verdict("O-history", f"after an earlier request was cancelled at {site}: c{k} deviates from its singleton-request value", history=h, cancelled_at=site)
                    break
            swept += 1
    except Exception as e:
        if _harness_exc(e):
            raise
        verdict("O-complete", f"request after a cancelled one raised {type(e).__name__}: {str(e)[:150]}")
    mon.violations = []
    # one task-list OBJECT re-used for a sequence of requests with alternating strain fields (a history on one object):
    # every result must equal that of a fresh list given the same (strain, request)
    reuse_checked = 0
    try:
        from cij.util import c_
        from cij.core.tasks import PhononContributionTaskList
        alt = numpy.roll(strain, 1, axis=1) if world.get("strain_kind") != "equal" else strain * 1.0
        if world.get("strain_kind") == "equal":
            alt = numpy.array([[0.25, 0.35, 0.4]] * strain.shape[0])
        tl = PhononContributionTaskList(calc)
        chain = []
        crng = random.Random(seed ^ 0x5BD1E995)      # its own stream: a replay (world and histories given) rebuilds the same chain
        for step in range(4):
            size = crng.choice([2, 3, 5, 21])
            chain.append((strain if step % 2 == 0 else alt, [[k] for k in crng.sample(ALL21, size)]))
        for step, (S, h) in enumerate(chain):
            keys = [c_(*a) for a in h]
            tl.resolve(S, keys)
            tl.calculate()
            got = tl.get_isothermal_results()
            runs += 1
            mon.violations = []
            rkeys, ref, _ad, _tl = run_request(calc, S, h)
            runs += 1
            mon.violations = []
            for key in keys:
                dev = _dev(got[key], ref[key]) / scale
                if not dev <= 1e-9:
                    verdict("O-history", f"re-used task list: isothermal c{canon(key)} of request {step + 1} deviates from a fresh list's value by {dev:.3e} x scale",
                            history=h, chain_step=step)
                    break
            reuse_checked += 1
    except Exception as e:
        if _harness_exc(e):
            raise
        verdict("O-complete", f"re-used task list raised {type(e).__name__}: {str(e)[:150]}")
    mon.violations = []
    # two task lists alive at once on one calculator, their steps (resolve / calculate / collect) interleaved in a seeded order:
    # each must return what a fresh list returns for the same (strain, request) on its own
    interleaved_checked = 0
    try:
        from cij.util import c_
        from cij.core.tasks import PhononContributionTaskList
        irng = random.Random(seed ^ 0x2545F491)
        # a second calculator of the same shape holding other numbers: with the SAME strain field its tasks have parameters equal to the first one's
        calc2 = None
        if world["kind"] == "stub":
            w2 = dict(world, freq=(numpy.array(world["freq"]) * 1.07).tolist(), gamma=(numpy.array(world["gamma"]) * 0.93).tolist())
            calc2 = build_stub(w2)
        for _round in range(3 if calc2 is not None else 2):
            lists = []
            for li in range(2):
                S = strain if (li == 0 or irng.random() < 0.4 or _round == 2) else alt
                cc = calc2 if (_round == 2 and li == 1) else calc
                h = [[k] for k in irng.sample(ALL21, irng.choice([1, 2, 4, 8, 21]))]
                lists.append({"S": S, "h": h, "keys": [c_(*a) for a in h], "tl": PhononContributionTaskList(cc), "calc": cc, "step": 0, "got": None})
            order = [0, 0, 0, 1, 1, 1]
            irng.shuffle(order)
            for li in order:
                L = lists[li]
                if L["step"] == 0:
                    L["tl"].resolve(L["S"], L["keys"])
                elif L["step"] == 1:
                    L["tl"].calculate()
                else:
                    L["got"] = (L["tl"].get_isothermal_results(), L["tl"].get_adiabatic_results())
                L["step"] += 1
            runs += 2
            mon.violations = []
            for li, L in enumerate(lists):
                rkeys, ref, ref_ad, _tl = run_request(L["calc"], L["S"], L["h"])
                runs += 1
                mon.violations = []
                for key in L["keys"]:
                    dev = max(_dev(L["got"][0][key], ref[key]), _dev(L["got"][1][key], ref_ad[key])) / scale
                    if not dev <= 1e-9:
                        verdict("O-history", f"two task lists interleaved (step order {order}): c{canon(key)} of list {li} deviates from a fresh list's value by {dev:.3e} x scale",
                                history=L["h"], interleaving=order)
                        break
                interleaved_checked += 1
    except Exception as e:
        if _harness_exc(e):
            raise
        verdict("O-complete", f"interleaved task lists raised {type(e).__name__}: {str(e)[:150]}")
    mon.violations = []
    # ride-along relations (differential on the same machinery, not "simulation")
    rel = {"isotropy_checked": 0, "axis_perm_checked": 0}
    if relations and len(solo) == 21:
        if world.get("strain_kind") == "equal":
            grp = [["11", "22", "33"], ["12", "13", "23"], ["44", "55", "66"]]
            for g in grp:
                for k in g[1:]:
                    if float(numpy.max(numpy.abs(solo[k] - solo[g[0]]))) > 1e-9 * scale:
                        verdict("O-isotropy", f"equal axial strains: c{k} != c{g[0]}")
            if float(numpy.max(numpy.abs(solo["44"] - (solo["11"] - solo["12"]) / 2))) > 1e-9 * scale:
                verdict("O-isotropy", "equal axial strains: c44 != (c11-c12)/2")
            for k in ALL21:
                if k not in sum(grp, []) and float(numpy.max(numpy.abs(solo[k]))) > 1e-9 * scale:
                    verdict("O-isotropy", f"equal axial strains: c{k} is not zero")
            rel["isotropy_checked"] = 1
        perm = rng.choice([[1, 2, 0], [2, 0, 1], [1, 0, 2], [0, 2, 1], [2, 1, 0]])
        # new axis perm[a] carries what old axis a carried
        st2 = numpy.empty_like(strain)
        for a in range(3):
            st2[:, perm[a]] = strain[:, a]
        try:
            keys, iso2, ad2, tl = run_request(calc, st2, [[k] for k in ALL21])
            runs += 1
            got = {canon(k): numpy.asarray(iso2[k]) for k in keys}
            for k in ALL21:
                k2 = permute_key(k, perm)
                if float(numpy.max(numpy.abs(got[k2] - solo[k]))) > 1e-9 * scale:
                    # near-degenerate strains may legitimately pick another eigenbasis; only report clear cases
                    verdict("O-axisperm", f"relabelling the axes by {perm}: c{k2} of the relabelled crystal != c{k} of the original (dev {float(numpy.max(numpy.abs(got[k2] - solo[k]))) / scale:.3e} x scale)")
                    break
            rel["axis_perm_checked"] = 1
        except Exception as e:
            if _harness_exc(e):
                raise
            verdict("O-complete", f"relabelled request raised {type(e).__name__}: {str(e)[:150]}")
        mon.violations = []
    return {"verdicts": verdicts, "runs": runs, "stats": mon.stats, "event_digest": mon.digest(), "n_events": len(mon.events),
            "strain_kind": world.get("strain_kind"), "maxdev": maxdev, "history_sizes": {str(k): v for k, v in sizes.items()},
            "rel": rel, "aborted_requests": aborted, "cancellation_sweep": swept, "assembled_components_checked": assembled, "reuse_chain_steps": reuse_checked, "interleaved_lists_checked": interleaved_checked, "scale": scale, "wall": time.time() - t0, "n_histories": len(histories), "world_kind": world["kind"],
            "sample": {"seed": seed, "world_kind": world["kind"], "strain_kind": world.get("strain_kind"), "strain_row0": world["strain"][0], "history": histories[-1]}}


def world_digest(seed, tier):
    rng = random.Random(seed)
    w = gen_world_any(rng, tier)
    h = gen_histories(rng, 30 if tier == "quick" else 60)
    return hashlib.sha256(json.dumps([w, h], sort_keys=True).encode()).hexdigest()


def run_job(job):
    """called inside a zygote: fork, run one world, return its result"""
    import select
    import signal
    rfd, wfd = os.pipe()
    pid = os.fork()
    if pid == 0:
        os.close(rfd)
        try:
            import faulthandler
            faulthandler.dump_traceback_later(100, exit=True)
            import warnings
            warnings.simplefilter("ignore")
            numpy.seterr(all="ignore")
            res = run_world(job["seed"], job["tier"], world=job.get("world"), histories=job.get("histories"))
            res["world_digest"] = world_digest(job["seed"], job["tier"]) if job.get("world") is None else None
            data = json.dumps(res, default=float).encode()
        except BaseException as e:  # noqa
            data = json.dumps({"harness_error": f"{type(e).__name__}: {e}", "trace": traceback.format_exc()}).encode()
        with os.fdopen(wfd, "wb") as w:
            w.write(data)
        os._exit(0)
    os.close(wfd)
    chunks = []
    deadline = time.monotonic() + 150
    while True:
        left = deadline - time.monotonic()
        if left <= 0:
            os.kill(pid, signal.SIGKILL)
            os.waitpid(pid, 0)
            os.close(rfd)
            return {"harness_error": "tasksim world timed out"}
        r, _, _ = select.select([rfd], [], [], min(left, 5))
        if r:
            b = os.read(rfd, 1 << 20)
            if not b:
                break
            chunks.append(b)
    os.close(rfd)
    os.waitpid(pid, 0)
    if not chunks:
        return {"harness_error": "tasksim child died"}
    return json.loads(b"".join(chunks))
