"""C04 check driver (engine tasksim)."""
import json
import os
import random
import sys
import time

from . import tasksim
from .check import VERIF, EVIDENCE_DIR, REPLAY_DIR, derive_seed, load_known, match_known, signature
from .pool import Pool
from . import session as SS

BUDGET = {"quick": 96, "thorough": 2400}
WALL = {"quick": 150.0, "thorough": 1500.0}


def shrink_history(pool, seed, tier, world, history, want):
    """drop requests from a failing history while the same oracle still fails"""
    cur = list(history)
    trials = 0

    def fails(h):
        r = pool.call_any(0, {"engine": "tasksim", "seed": seed, "tier": tier, "world": world, "histories": [h], "id": "s"})
        return any(v["oracle"] == want for v in r.get("verdicts", []))

    i = 0
    while i < len(cur) and trials < 40 and len(cur) > 1:
        cand = cur[:i] + cur[i + 1:]
        trials += 1
        if fails(cand):
            cur = cand
        else:
            i += 1
    return cur, trials


def main(argv, tier, base_seed):
    t0 = time.time()
    if "--replay" in argv:
        return replay(argv[argv.index("--replay") + 1])
    n = int(os.environ.get("VERIF_N") or BUDGET[tier])
    workers = int(os.environ.get("VERIF_WORKERS", "16"))
    hs = SS.HASH_SEEDS[tier]
    layout = [hs[i % len(hs)] for i in range(workers)]
    log_dir = os.path.join("/dev/shm" if os.path.isdir("/dev/shm") else "/tmp", f"cijsim-logs-{os.getpid()}")
    print(f"VERIF_SEED={base_seed} property=C04 tier={tier} worlds<={n} workers={workers}", flush=True)
    pool = Pool(layout, log_dir)
    known = load_known()
    try:
        seeds = [derive_seed(base_seed, j) for j in range(n)]
        jobs = [{"id": str(s), "hash": layout[j % len(layout)], "engine": "tasksim", "seed": s, "tier": tier} for j, s in enumerate(seeds)]
        deadline = time.monotonic() + WALL[tier]
        results = pool.run_jobs(jobs, deadline=deadline)
        harness, violations, known_hits = [], [], {}
        done = 0
        agg = {"runs": 0, "evaluations": 0, "stores": 0, "lookups": 0, "resolves": 0, "shear_tasks": 0, "three_level_chains": 0, "edges": 0, "events": 0}
        kinds, sizes, digests, nontrivial = {}, {}, set(), set()
        wkinds = {}
        maxdev = 0.0
        rel = {"isotropy_checked": 0, "axis_perm_checked": 0}
        reuse = 0
        inter = 0
        swept = 0
        assembled = 0
        aborted = {}
        samples = []
        max_tasks = 0
        for s in seeds:
            r = results.get(str(s))
            if r is None:
                continue
            if "harness_error" in r:
                harness.append(f"seed {s}: {r['harness_error']}")
                continue
            done += 1
            if r.get("world_digest") != tasksim.world_digest(s, tier):
                harness.append(f"seed {s}: world digest differs between coordinator and zygote (generator depends on the hash seed?)")
            digests.add(r["world_digest"])
            agg["runs"] += r["runs"]
            agg["events"] += r["n_events"]
            for k in ("evaluations", "stores", "lookups", "resolves", "shear_tasks", "three_level_chains", "edges"):
                agg[k] += r["stats"][k]
            max_tasks = max(max_tasks, r["stats"]["max_tasks"])
            kinds[r["strain_kind"]] = kinds.get(r["strain_kind"], 0) + 1
            wkinds[r.get("world_kind", "stub")] = wkinds.get(r.get("world_kind", "stub"), 0) + 1
            for k, v in r["history_sizes"].items():
                sizes[k] = sizes.get(k, 0) + v
            maxdev = max(maxdev, r["maxdev"])
            for k in rel:
                rel[k] += r["rel"][k]
            reuse += r.get("reuse_chain_steps", 0)
            inter += r.get("interleaved_lists_checked", 0)
            swept += r.get("cancellation_sweep", 0)
            assembled += r.get("assembled_components_checked", 0)
            for k, v in (r.get("aborted_requests") or {}).items():
                aborted[k] = aborted.get(k, 0) + v
            if r["stats"]["three_level_chains"] > 0:
                nontrivial.add(r["world_digest"])
            if len(samples) < 3:
                samples.append(r["sample"])
            for v in r["verdicts"]:
                kf = match_known(v, known)
                if kf is not None:
                    known_hits.setdefault(kf["id"], [kf, 0])[1] += 1
                else:
                    violations.append((s, v))
        # determinism: re-run 5 % of the worlds under another hash seed, compare the monitors' event logs
        redo = seeds[:: max(1, len(seeds) // max(2, len(seeds) // 20))][: max(2, len(seeds) // 20)]
        jobs2 = [{"id": "re" + str(s), "hash": layout[(j * 7 + 3) % len(layout)], "engine": "tasksim", "seed": s, "tier": tier} for j, s in enumerate(redo)]
        res2 = pool.run_jobs(jobs2)
        for s in redo:
            a, b = results.get(str(s)), res2.get("re" + str(s))
            if a and b and "harness_error" not in a and "harness_error" not in b:
                if a["event_digest"] != b["event_digest"] or a["maxdev"] != b["maxdev"]:
                    harness.append(f"nondeterminism: world {s} gave different event logs in two executions (zygotes {a.get('_zygote')}, {b.get('_zygote')})")
        for kid, (kf, cnt) in sorted(known_hits.items()):
            print(f"KNOWN-FINDING: property=C04 {kf['what']} [{cnt} occurrences this run]")
        rc = 0
        if violations:
            rc = 1
            seen = {}
            for s, v in violations:
                seen.setdefault(signature(v), (s, v))
            for sig, (s, v) in list(seen.items())[:3]:
                rng = random.Random(s)
                world = tasksim.gen_world_any(rng, tier)
                hist = v.get("history")
                trials = 0
                if hist:
                    try:
                        hist, trials = shrink_history(pool, s, tier, world, hist, v["oracle"])
                    except Exception as e:
                        print("HARNESS: shrink failed:", e)
                os.makedirs(REPLAY_DIR, exist_ok=True)
                path = os.path.join(REPLAY_DIR, f"C04-{s}.json")
                with open(path, "w") as fp:
                    json.dump({"format": 1, "property": "C04", "seed": s, "tier": tier, "world": world, "histories": [hist] if hist else None,
                               "verdict": v, "shrink_trials": trials}, fp, indent=1)
                print(f"VIOLATION property=C04 replay={path}")
                print(f"  seed={s} oracle={v['oracle']} strain={v.get('strain_kind')}: {v['message'][:300]}  history={json.dumps(hist)[:200]}")
        for h in harness[:10]:
            print("HARNESS:", h)
        if harness and rc == 0:
            rc = 2
        if done == 0:
            print("HARNESS: no world completed")
            rc = rc or 2
        wall = time.time() - t0
        ev = {
            "property_id": "C04", "tier": tier, "seed": base_seed, "level": "exploration", "wall_s": round(wall, 2), "violations": len(violations),
            "coverage": {
                "evaluations": agg["runs"], "distinct_nontrivial": len(nontrivial),
                "rule": "one evaluation = one request history (resolve + calculate + result lookup on the real task scheduler) under the trace monitor; "
                        "worlds are seeded (stub calculator arrays + a strain field of one of 7 kinds incl. nearly equal axial strains); per world: 21 singleton "
                        "reference requests, 3 full-set orders, 30 (thorough 60) seeded subsets/orders with alternative spellings and duplicates, 1 axis "
                        "relabelling; distinct_nontrivial counts distinct WORLDS (digest of world+histories) in which at least one resolved graph had a "
                        "three-level dependency chain (shear -> rotated-frame component -> ...)",
                "samples": samples, "worlds": done, "request_histories": agg["runs"],
                "worlds_per_hour": round(done / wall * 3600) if wall else 0, "histories_per_hour": round(agg["runs"] / wall * 3600) if wall else 0,
                "simulated_time": "none: no clock in cij; time = monitor's event sequence number; events: %d" % agg["events"],
                "monitor_events": agg, "max_tasks_in_one_request": max_tasks, "strain_kinds": kinds, "history_sizes": sizes,
                "max_request_dependence_over_scale": maxdev, "ride_along_relations": rel, "reused_list_chain_steps_checked": reuse,
                "interleaved_task_lists_checked": inter, "calculator_assembled_components_checked_against_fresh_request": assembled,
                "faults": {"kind": "cancel: an earlier request on the same calculator is cancelled at its k-th cij line event and abandoned; the requests that follow "
                                   "must still equal their singleton references (the scheduler does no I/O, so no I/O fault applies)",
                           "fired_by_site": dict(sorted(aborted.items())), "fired": sum(v for k, v in aborted.items() if k != "finished-before-the-cut"),
                           "cancellation_sweep": "per world, an earlier full request is cancelled at the first execution of each of 12 (thorough 60) seeded distinct source "
                                                 "lines, each followed by a fresh request compared with its singleton references: %d such pairs" % swept},
                "real_components": ["cij.core.calculator.Calculator + qha (calculator worlds)", "cij/core/tasks.py", "cij/core/phonon_contribution/shear.py", "nonshear.py", "cij/util/voigt.py", "networkx", "numpy"],
                "stubs": ["duck-typed calculator holding arrays (stub worlds)", "input files written by cijsim.world (calculator worlds)"], "world_kinds": wkinds,
                "known_finding_hits": {k: c for k, (_, c) in known_hits.items()}, "harness_errors": harness[:20],
                "determinism_reruns": len(jobs2),
            },
            "assumptions": ["values compared at 1e-9 x (largest |value| among the 21 singleton results): components that are identically zero carry only rounding noise",
                            "stub calculators expose exactly the attributes the contribution classes read (v_array, t_array, freq_array, mode_gamma, weights, pressures, heat capacity, static_p_array)"],
        }
        os.makedirs(EVIDENCE_DIR, exist_ok=True)
        with open(os.path.join(EVIDENCE_DIR, "C04.json"), "w") as fp:
            json.dump(ev, fp, indent=1, default=str)
        print(f"C04 {tier}: {done} worlds, {agg['runs']} request histories, {len(violations)} violations, {len(harness)} harness errors, {wall:.1f}s")
        return rc
    finally:
        pool.close()
        import shutil
        shutil.rmtree(log_dir, ignore_errors=True)


def replay(path):
    with open(path) as fp:
        doc = json.load(fp)
    log_dir = os.path.join("/dev/shm" if os.path.isdir("/dev/shm") else "/tmp", f"cijsim-logs-{os.getpid()}")
    pool = Pool([0], log_dir)
    try:
        r = pool.call_any(0, {"engine": "tasksim", "seed": doc["seed"], "tier": doc["tier"], "world": doc["world"], "histories": doc["histories"], "id": "r"})
    finally:
        pool.close()
    if "harness_error" in r:
        print("HARNESS:", r["harness_error"])
        return 2
    same = [v for v in r["verdicts"] if v["oracle"] == doc["verdict"]["oracle"]]
    if same:
        print(f"VIOLATION property=C04 replay={path}")
        print(f"  reproduced: {same[0]['message'][:300]}")
        return 1
    print(f"replay {path}: violation not reproduced")
    return 0
