#!/bin/bash
# Offline setup: nothing to build; verify the interpreter and the repo's dependencies import.
set -e
export PYTHONDONTWRITEBYTECODE=1 OPENBLAS_NUM_THREADS=1 OMP_NUM_THREADS=1 MKL_NUM_THREADS=1
cd /verif
PYTHONPATH=/repo /venv/bin/python -W ignore -c "import cij, qha, numpy, pandas, sympy, yaml, jsonschema, networkx, pint; print('setup ok')"
